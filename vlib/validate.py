"""Independent well-formedness validator for yastn tensors (C02), using public accessors only."""
import itertools

import numpy as np

from .common import yastn, YastnError, gsum, canonical


def validate_tensor(y, deep=True):
    """Return None when y is well-formed, else (clause, message)."""
    sym = y.config.sym.SYM_ID
    ns = y.config.sym.NSYM
    # 1. yastn's own test
    try:
        ok = y.is_consistent()
    except AssertionError as e:
        return ('is_consistent', f'assertion failed: {e}')
    except YastnError as e:
        return ('is_consistent', f'YastnError: {e}')
    if ok is not True:
        return ('is_consistent', f'returned {ok!r}')
    n = tuple(y.n)
    if not canonical(sym, n) or not all(isinstance(x, int) for x in n):
        return ('charge_canonical', f'tensor charge {n} is not canonical python ints')
    # 2. native block keys: unique, strictly increasing
    keys = list(y.get_blocks_charge())
    shapes = list(y.get_blocks_shape())
    if len(keys) != len(shapes):
        return ('blocks', 'get_blocks_charge / get_blocks_shape lengths differ')
    if len(set(keys)) != len(keys):
        return ('blocks_order', f'block keys not unique: {keys}')
    # blocks are stored in increasing order of their native keys; with a pending transpose get_blocks_charge() lists the same blocks
    # with charges in logical leg order, so the order is examined on the materialised tensor
    skeys = keys if tuple(y.trans) == tuple(range(y.ndim_n)) else list(y.consume_transpose().get_blocks_charge())
    if any(not (k0 < k1) for k0, k1 in zip(skeys, skeys[1:])):
        return ('blocks_order', f'block keys not strictly increasing: {skeys}')
    ndn = y.ndim_n
    if any(len(k) != ndn * ns for k in keys):
        return ('blocks', f'block key length != ndim_n * NSYM: {keys}')
    if not all(isinstance(x, int) for k in keys for x in k):
        return ('blocks', 'block charges are not python ints')
    # 3. logical view: legs and selection rule through a[key]
    nlegs = y.get_legs(native=True)
    if len(nlegs) != ndn:
        return ('legs', f'{len(nlegs)} native legs, ndim_n={ndn}')
    sig = tuple(l.s for l in nlegs)
    if tuple(y.get_signature(native=True)) != sig or tuple(y.s_n) != sig:
        return ('signature', f'get_signature(native) {y.get_signature(native=True)} vs legs {sig}')
    for l in nlegs:
        if list(l.t) != sorted(set(l.t)) or not all(canonical(sym, t) for t in l.t) or not all(isinstance(d, int) and d > 0 for d in l.D):
            return ('leg_sectors', f'leg {l} has unsorted / non-canonical sectors or non-positive dimensions')
    present, total = 0, 0
    for key in itertools.product(*(l.t for l in nlegs)):
        flat = tuple(itertools.chain.from_iterable(key))
        try:
            blk = y[flat]
        except YastnError:
            continue
        present += 1
        if gsum(sym, key, sig) != n:
            return ('selection_rule', f'stored block {key} with signature {sig} fuses to {gsum(sym, key, sig)} != n = {n}')
        exp_shape = tuple(l[t] for l, t in zip(nlegs, key))
        bshape = tuple(np.shape(blk))
        if y.isdiag:
            if key[0] != key[1] or bshape != exp_shape[:1] or exp_shape[0] != exp_shape[1]:
                return ('block_shape', f'diagonal block {key} has shape {bshape}, legs say {exp_shape}')
            total += exp_shape[0]
        else:
            if bshape != exp_shape:
                return ('block_shape', f'block {key} has shape {bshape}, legs say {exp_shape}')
            total += int(np.prod(exp_shape, dtype=np.int64))
    if ndn == 0:
        present = len(keys)
        total = y.size
    if present != len(keys):
        return ('blocks_vs_legs', f'{len(keys)} stored blocks but {present} reachable through get_legs x a[key]')
    if y.size != total or len(y.data) != total:
        return ('size', f'size {y.size}, len(data) {len(y.data)}, sum of block sizes {total}')
    shp = tuple(sum(l.D) for l in y.get_legs())
    if tuple(y.get_shape()) != shp or tuple(y.shape) != shp:
        return ('shape', f'get_shape {y.get_shape()} vs legs {shp}')
    if y.ndim != len(y.get_legs()) or y.ndim_n != ndn or len(y.s) != y.ndim:
        return ('rank', 'ndim / ndim_n / s inconsistent with get_legs')
    # 4. fusion history: fused leg sizes reproducible from the recorded sub-leg sizes
    if deep:
        for l in nlegs:
            h = l.history()
            if h[0] == 'p':
                try:
                    prod = yastn.leg_product(*l.unfuse_leg())
                except YastnError as e:
                    return ('fusion_history', f'cannot rebuild fused leg {h}: {e}')
                if prod.s != l.s or any(prod.tD.get(t) != D for t, D in zip(l.t, l.D)):
                    return ('fusion_history', f'fused leg sectors {l.tD} not reproducible from sub-legs {prod.tD}')
                if prod.history() != h:
                    return ('fusion_history', f'history {h} vs rebuilt {prod.history()}')
        # 5. dense array vanishes outside the symmetry-allowed sectors
        A = y.to_numpy(native=True)
        if not y.isdiag and ndn > 0 and A.size:
            offs = []
            for l in nlegs:
                o, lo = [], 0
                for t, D in zip(l.t, l.D):
                    o.append((t, lo, lo + D))
                    lo += D
                offs.append(o)
            nz = 0
            for combo in itertools.product(*offs):
                key = tuple(c[0] for c in combo)
                if gsum(sym, key, sig) != n:
                    sl = tuple(slice(c[1], c[2]) for c in combo)
                    if np.any(A[sl] != 0):
                        return ('forbidden_sector_nonzero', f'dense elements in forbidden sector {key} are non-zero')
        elif y.isdiag and A.size:
            if np.any(A - np.diag(np.diag(A)) != 0):
                return ('forbidden_sector_nonzero', 'diagonal tensor has off-diagonal dense elements')
    return None
