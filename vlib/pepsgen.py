"""Finite PEPS generators and the dense state-vector reference shared by C11, C12 and C15.

Fermionic order of a finite PEPS (as documented for Peps.to_tensor): sites sorted by (ny, nx), i.e. column by column.
Dense convention of to_tensor(): legs (s_0, a_0, s_1, a_1, ...) stay in place, signs correspond to the order s_0 < s_1 < ... < a_0 < a_1 < ...
(all system legs first), so an operator acting on system legs is the plain Jordan-Wigner matrix over the system sites tensored with the
identity on the ancilla / charge-offset legs.
"""
import numpy as np
import scipy.linalg as sla

from . import common as C
from . import mpsgen as G
from . import jw as JW
from .common import yastn, YastnError
import yastn.tn.fpeps as fpeps
import yastn.tn.mps as mps

LATTICES = [[1, 2, 'obc'], [2, 1, 'obc'], [2, 2, 'obc'], [1, 3, 'obc'], [3, 1, 'obc'], [2, 3, 'obc'], [3, 2, 'obc'], [2, 2, 'cylinder'],
            [3, 2, 'cylinder'], [3, 1, 'cylinder'], [1, 4, 'obc'], [2, 3, 'cylinder']]


def sites_of(lat):
    Nx, Ny, _ = lat
    return [(nx, ny) for ny in range(Ny) for nx in range(Nx)]     # fermionic order


def index_of(lat):
    return {s: i for i, s in enumerate(sites_of(lat))}


def neighbours(lat):
    """Ordered nearest-neighbour pairs (both orientations), including the seam of a cylinder."""
    Nx, Ny, b = lat
    out = []
    for (x, y) in sites_of(lat):
        if y + 1 < Ny:
            out += [((x, y), (x, y + 1)), ((x, y + 1), (x, y))]
        if x + 1 < Nx:
            out += [((x, y), (x + 1, y)), ((x + 1, y), (x, y))]
        elif b == 'cylinder' and Nx > 2:
            out += [((x, y), (0, y)), ((0, y), (x, y))]
    return out


def adjacent(lat, a, b):
    return (a, b) in set(neighbours(lat))


def resolve_op(named, name):
    """'cpu*cd' -> named['cpu'] @ named['cd']"""
    parts = name.split('*')
    out = named[parts[0]]
    for p in parts[1:]:
        out = out @ named[p]
    return out


def dense_terms(terms, fam, lat, gate_sites):
    """sum_k coef_k * prod_j O_kj(site) as a d^N x d^N Jordan-Wigner matrix; term = (coef, [op names], [index into gate_sites])."""
    ops, sp, named = G.family(fam)
    idx = index_of(lat)
    N = len(idx)
    H = np.zeros((sp.d ** N, sp.d ** N), dtype=np.complex128)
    for coef, names, pos in terms:
        H = H + C.cplx(coef) * JW.jw_product(sp, [resolve_op(named, nm) for nm in names], [idx[tuple(gate_sites[p])] for p in pos], N)
    return H


def tensor_terms(terms, fam):
    """The same term list as a two-site (or one-site) yastn operator through fkron."""
    ops, sp, named = G.family(fam)
    I = named['I']
    out = None
    for coef, names, pos in terms:
        c = C.cplx(coef)
        if len(pos) == 2:
            t = yastn.fkron(resolve_op(named, names[0]), resolve_op(named, names[1]), sites=tuple(pos))
        else:
            t = yastn.fkron(resolve_op(named, names[0]), I, sites=(pos[0], 1 - pos[0]))
        out = c * t if out is None else out + c * t
    return out


def tensor_terms_local(terms, fam):
    ops, sp, named = G.family(fam)
    out = None
    for coef, names, pos in terms:
        t = C.cplx(coef) * resolve_op(named, names[0])
        out = t if out is None else out + t
    return out


# ---- gate catalogue ------------------------------------------------------------------------------------------------------

def species(name):
    if name == 'SpinlessFermions':
        return [('cp', 'c', 'n')]
    if name in ('SpinfulFermions', 'SpinfulFermions_tJ'):
        return [('cpu', 'cu', 'nu'), ('cpd', 'cd', 'nd')]
    return []


def gate_kinds(fam):
    name, kw = G.FAMILIES[fam]
    sym = kw['sym']
    nn, loc = ['nn_exp'], ['local_exp']
    if species(name):
        nn += ['hopping', 'hopping']
        loc += ['occupation']
    if name in ('SpinfulFermions', 'SpinfulFermions_tJ'):
        loc += ['coulomb']
    if name == 'SpinfulFermions_tJ':
        nn += ['tJ']
    if name == 'Spin12':
        nn += ['heisenberg']
        if sym in ('dense', 'Z2'):
            nn += ['ising']
        if sym == 'dense':
            loc += ['field']
    if name == 'Spin1':
        nn += ['heisenberg']
    return nn, loc


PARS = [1.0, -1.0, 0.5, 0.7, -0.3, 1.3, 2.0, 0.0]
STEPS = [0.1, 0.3, {'re': 0, 'im': 0.2}, {'re': 0, 'im': -0.4}, {'re': 0.2, 'im': 0.3}, -0.2, 1.0]


def draw_gate_spec(d, fam, tier, local):
    """Parameters of one gate (without sites)."""
    from hypothesis import strategies as st
    from . import hamgen as HG
    name, kw = G.FAMILIES[fam]
    nn, loc = gate_kinds(fam)
    kind = d.draw(st.sampled_from(loc if local else nn))
    g = {'kind': kind, 'step': d.draw(st.sampled_from(STEPS))}
    p = lambda: d.draw(st.sampled_from(PARS))
    if kind == 'hopping':
        g.update({'t': p(), 'sp': d.draw(st.integers(0, len(species(name)) - 1))})
    elif kind in ('ising', 'heisenberg'):
        g['J'] = p()
    elif kind == 'tJ':
        g['pars'] = [p() for _ in range(7)]
    elif kind == 'coulomb':
        g['pars'] = [p() for _ in range(3)]
    elif kind == 'occupation':
        g.update({'mu': p(), 'sp': d.draw(st.integers(0, len(species(name)) - 1))})
    elif kind == 'field':
        g['h'] = p()
    elif kind == 'nn_exp':
        g['terms'] = HG.draw_hamiltonian(d, fam, 2, tier)
    elif kind == 'local_exp':
        hops, dens = HG.ladder_ops(name, kw['sym'])
        g['terms'] = [{'amp': p(), 'pos': [0], 'ops': [d.draw(st.sampled_from(dens or ['I']))]} for _ in range(d.draw(st.integers(1, 2)))]
    return g


def gate_terms(g, fam):
    """Hamiltonian of the gate as a term list (coef, names, positions within the gate's end sites)."""
    name, kw = G.FAMILIES[fam]
    k = g['kind']
    if k == 'hopping':
        cp, c, n = species(name)[g['sp']]
        return [(-g['t'], [cp, c], [0, 1]), (-g['t'], [cp, c], [1, 0])]
    if k == 'ising':
        return [(g['J'], ['x', 'x'], [0, 1])]
    if k == 'heisenberg':
        J = g['J']
        return [(0.5 * J, ['sp', 'sm'], [0, 1]), (0.5 * J, ['sm', 'sp'], [0, 1]), (J, ['sz', 'sz'], [0, 1])]
    if k == 'tJ':
        J, tu, td, muu0, muu1, mud0, mud1 = g['pars']
        return [(0.5 * J, ['cpu*cd', 'cpd*cu'], [0, 1]), (0.5 * J, ['cpd*cu', 'cpu*cd'], [0, 1]), (-0.5 * J, ['nu', 'nd'], [0, 1]),
                (-0.5 * J, ['nd', 'nu'], [0, 1]), (-tu, ['cpu', 'cu'], [0, 1]), (-tu, ['cpu', 'cu'], [1, 0]), (-td, ['cpd', 'cd'], [0, 1]),
                (-td, ['cpd', 'cd'], [1, 0]), (-muu0, ['nu'], [0]), (-muu1, ['nu'], [1]), (-mud0, ['nd'], [0]), (-mud1, ['nd'], [1])]
    if k == 'coulomb':
        mu_up, mu_dn, U = g['pars']
        return [(U, ['nu*nd'], [0]), (-U / 2 - mu_up, ['nu'], [0]), (-U / 2 - mu_dn, ['nd'], [0])]
    if k == 'occupation':
        return [(-g['mu'], [species(name)[g['sp']][2]], [0])]
    if k == 'field':
        return [(-g['h'], ['x'], [0])]
    if k in ('nn_exp', 'local_exp', 'mpo'):
        return [(t['amp'], list(t['ops']), list(t['pos'])) for t in g['terms']]
    raise ValueError(k)


def build_gate(g, fam, sites):
    """fpeps Gate for the descriptor; sites = list of sites (1 site, a bond, or a path)."""
    ops, sp, named = G.family(fam)
    name, kw = G.FAMILIES[fam]
    I = named['I']
    step = C.cplx(g['step'])
    k = g['kind']
    sites = [tuple(s) for s in sites]
    gates = fpeps.gates
    if k == 'hopping':
        cp, c, n = species(name)[g['sp']]
        out = gates.gate_nn_hopping(g['t'], step, I, named[c], named[cp])
    elif k == 'ising':
        out = gates.gate_nn_Ising(g['J'], step, I, named['x'])
    elif k == 'heisenberg':
        out = gates.gate_nn_Heisenberg(g['J'], step, I, named['sz'], named['sp'], named['sm'])
    elif k == 'tJ':
        out = gates.gate_nn_tJ(*g['pars'], step, I, named['cu'], named['cpu'], named['cd'], named['cpd'])
    elif k == 'coulomb':
        out = gates.gate_local_Coulomb(*g['pars'], step, I, named['nu'], named['nd'])
    elif k == 'occupation':
        out = gates.gate_local_occupation(g['mu'], step, I, named[species(name)[g['sp']][2]])
    elif k == 'field':
        out = gates.gate_local_field(g['h'], step, I, named['x'])
    elif k == 'nn_exp':
        out = gates.gate_nn_exp(step, I, tensor_terms(gate_terms(g, fam), fam))
    elif k == 'local_exp':
        out = gates.gate_local_exp(step, I, tensor_terms_local(gate_terms(g, fam), fam))
    elif k == 'mpo':
        n = len(sites)
        I_n = mps.product_mpo(I, N=n)
        hts = [mps.Hterm(C.cplx(t['amp']), tuple(t['pos']), tuple(named[o] for o in t['ops'])) for t in g['terms']]
        hts.append(mps.Hterm(1.0, (0,), (I,)))
        mpo = mps.generate_mpo(I_n, hts)
        if g.get('mscale', 1) != 1:
            mpo = g['mscale'] * mpo          # (kept in mpo.factor)
        return fpeps.Gate(G=mpo, sites=tuple(sites))
    else:
        raise ValueError(k)
    return fpeps.Gate(G=out.G, sites=tuple(sites))


def dense_gate(g, fam, lat, sites):
    """d^N x d^N matrix of the gate acting on the end sites of `sites` (all sites of the path for an MPO gate)."""
    ops, sp, named = G.family(fam)
    N = len(sites_of(lat))
    sites = [tuple(s) for s in sites]
    if g['kind'] == 'mpo':
        return g.get('mscale', 1) * (np.eye(sp.d ** N) + dense_terms(gate_terms(g, fam), fam, lat, sites))
    ends = [sites[0], sites[-1]] if len(sites) > 1 else sites
    H = dense_terms(gate_terms(g, fam), fam, lat, ends)
    return sla.expm(-C.cplx(g['step']) * H)


# ---- states ----------------------------------------------------------------------------------------------------------------

def product_state(fam, lat, occ, purification=False):
    ops, sp, named = G.family(fam)
    geom = fpeps.SquareLattice(dims=(lat[0], lat[1]), boundary=lat[2])
    if purification:
        return geom, fpeps.product_peps(geom, named['I'])
    vecs = {s: G.basis_vector(sp, occ[i]) for i, s in enumerate(sites_of(lat))}
    return geom, fpeps.product_peps(geom, vecs)


def dense_state(psi, fam, lat, purification=False):
    """(d^N, A) array: rows = system configurations in the Kronecker basis of the fermionic order, columns = ancilla / offset legs."""
    ops, sp, named = G.family(fam)
    N = len(sites_of(lat))
    T = psi.to_tensor()
    if T.ndim != 2 * N:
        raise YastnError(f'to_tensor() returned {T.ndim} legs for {N} sites')
    legs = {}
    for j in range(N):
        legs[2 * j] = sp.leg
        legs[2 * j + 1] = sp.leg.conj() if purification else T.get_legs(2 * j + 1)
    A = T.to_numpy(legs=legs)
    A = A.transpose(list(range(0, 2 * N, 2)) + list(range(1, 2 * N, 2)))
    return A.reshape(sp.d ** N, -1)


def draw_path(d, lat, length):
    """Self-avoiding nearest-neighbour path of the given number of sites."""
    from hypothesis import strategies as st
    sites = sites_of(lat)
    nb = {}
    for a, b in neighbours(lat):
        nb.setdefault(a, []).append(b)
    path = [d.draw(st.sampled_from(sites))]
    while len(path) < length:
        cand = [s for s in nb.get(path[-1], []) if s not in path]
        if not cand:
            break
        path.append(d.draw(st.sampled_from(cand)))
    return [list(s) for s in path]


def draw_circuit(d, fam, lat, tier, max_gates=5, kinds=('nn', 'nn', 'local', 'path', 'mpo')):
    from hypothesis import strategies as st
    from . import hamgen as HG
    gates = []
    nbs = neighbours(lat)
    for _ in range(d.draw(st.integers(1, max_gates))):
        what = d.draw(st.sampled_from(list(kinds)))
        if what == 'local' or not nbs:
            g = draw_gate_spec(d, fam, tier, local=True)
            g['sites'] = [list(d.draw(st.sampled_from(sites_of(lat))))]
        elif what == 'nn':
            g = draw_gate_spec(d, fam, tier, local=False)
            g['sites'] = [list(s) for s in d.draw(st.sampled_from(nbs))]
        elif what == 'path':
            g = draw_gate_spec(d, fam, tier, local=False)
            g['sites'] = draw_path(d, lat, d.draw(st.sampled_from([3, 4, 3])))
            if len(g['sites']) < 2:
                continue
        else:
            path = draw_path(d, lat, d.draw(st.sampled_from([3, 2, 3])))
            if len(path) < 2:
                continue
            g = {'kind': 'mpo', 'step': 0, 'sites': path, 'terms': HG.draw_hamiltonian(d, fam, len(path), tier),
                 'mscale': d.draw(st.sampled_from([1, 2, -0.5, 1]))}
        gates.append(g)
    return gates
