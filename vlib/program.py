"""Operation catalogue and interpreter for generated tensor programs (used by C01, C02, C03, C14, C15, C16).

A program is a JSON descriptor {'cfg': {...}, 'steps': [...]}; each step names an operation, the pool indices of
its operands and its arguments, and appends one result to the pool. Steps are drawn *interactively* against the
structural model (vlib.model.MT without data), so that every generated step is valid by construction; execution
re-runs the steps on yastn tensors and on the model with data.
"""
import itertools

import numpy as np

from . import common as C
from .common import yastn, YastnError, gsum, gneg, charge_box
from .model import MT, ELeg, leaves, shape_of, history, has_mode, depth, model_from_desc, structure_from_desc

FERM_SYMS = ('Z2', 'U1', 'Z2xU1', 'U1xU1', 'U1xU1xZ2')
SCALARS = [2, -1, 3, 0.5, -2, 0, {'re': 0, 'im': 1}, {'re': 1, 'im': -2}, {'re': -1, 'im': 0.5}]


def _st():
    from hypothesis import strategies as st
    return st


def chance(d, num, den):
    """True with probability num/den. The deciding values sit in the middle of the drawn range because Hypothesis
    over-samples the boundaries of integer ranges (measured: a `== 0` test fired 3-5x too often)."""
    r = d.draw(_st().integers(0, 4 * den - 1))
    return den <= r < den + 4 * num


# ------------------------------------------------------------------------------------------------
# drawing of configurations, legs and tensors
# ------------------------------------------------------------------------------------------------

def draw_cfg(d, syms=C.SYMS, fermionic=None, knobs=True):
    st = _st()
    sl = list(syms)
    if 'dense' in sl and len(sl) > 3:
        sl = [x for x in sl if x != 'dense'] * 2 + ['dense']     # a dense tensor has a single block: sample it less often
    sym = d.draw(st.sampled_from(sl), label='sym')
    ns = C.nsym(sym)
    if fermionic is None:
        if sym in FERM_SYMS:
            opts = [False, True]
            if ns >= 2:
                opts += [[True] + [False] * (ns - 1), [False] * (ns - 1) + [True], [True] * (ns - 1) + [False]]
            ferm = d.draw(st.sampled_from(opts), label='fermionic')
        else:
            ferm = False
    else:
        ferm = fermionic
    cfg = {'sym': sym, 'fermionic': ferm,
           'dtype': d.draw(st.sampled_from(['float64', 'float64', 'complex128']), label='dtype')}
    if knobs:
        cfg['policy'] = d.draw(st.sampled_from(['fuse_to_matrix', 'fuse_contracted', 'no_fusion']), label='policy')
        cfg['fusion'] = d.draw(st.sampled_from(['hard', 'meta']), label='fusion')
    return cfg


_CUR_POOL = {}


def draw_charge_pool(d, sym, tier):
    """A small pool of charges shared by all legs of one program, so that the selection rule allows many blocks:
    per U(1) component a window of 2-3 consecutive values inside the box, finite components completely."""
    st = _st()
    B = 2 if tier == 'quick' else 3
    rngs = []
    for m in C.MODULI[sym]:
        if m:
            rngs.append(list(range(m)))
        else:
            lo = d.draw(st.sampled_from([-1, 0, -B, B - 1, -1]))
            w = d.draw(st.sampled_from([2, 3, 2] if len(C.MODULI[sym]) == 1 else [2, 1, 2]))
            rngs.append([v for v in range(lo, lo + w) if -B <= v <= B])
    pool = [tuple(x) for x in itertools.product(*rngs)]
    _CUR_POOL.clear()
    _CUR_POOL[sym] = pool
    return pool


def draw_table(d, sym, tier, max_sectors=None, maxD=None, must=None):
    """Sector table {t: D} as JSON {'t': [...], 'D': [...]}."""
    st = _st()
    B = 2 if tier == 'quick' else 3
    max_sectors = max_sectors or (3 if tier == 'quick' else 4)
    maxD = maxD or (3 if tier == 'quick' else 4)
    box = _CUR_POOL.get(sym) or charge_box(sym, B)
    if len(box) == 1:
        ts = [box[0]]
    else:
        k = min(d.draw(st.sampled_from([2, 3, 1, 2, max_sectors, 1, 3, 2])), max_sectors, len(box))
        ts = d.draw(st.lists(st.sampled_from(box), min_size=k, max_size=k, unique=True))
    if must is not None and tuple(must) not in [tuple(t) for t in ts]:
        ts = ts + [tuple(must)]
    ts = sorted(tuple(t) for t in ts)
    Ds = [d.draw(st.integers(1, maxD)) for _ in ts]
    return {'t': [list(t) for t in ts], 'D': Ds}


def draw_tensor_desc(d, cfg, tier, rank=None, max_rank=None, dtype=None, legs=None, s=None, n=None, allow_drop=True):
    st = _st()
    sym = cfg['sym']
    if legs is None:
        max_rank = max_rank if max_rank is not None else (4 if tier == 'quick' else 5)
        if rank is None:
            rank = min(max_rank, d.draw(st.sampled_from([3, 2, 4, 2, 3, 3, 1, 5, 4, 2]), label='rank'))
            if rank > 0 and chance(d, 1, 30):
                rank = 0
        s = [d.draw(st.sampled_from([1, -1])) for _ in range(rank)]
        legs = [draw_table(d, sym, tier) for _ in range(rank)]
    rank = len(legs)
    if n is None:
        if any(len(lg['t']) == 0 for lg in legs):
            raise Skip()
        if rank > 0 and (not chance(d, 1, 40)):
            pick = [tuple(d.draw(st.sampled_from(lg['t']))) for lg in legs]
            n = gsum(sym, pick, s)
        elif rank > 0:
            n = d.draw(st.sampled_from(charge_box(sym, 1)))
        else:
            n = tuple(0 for _ in C.MODULI[sym])
    td = {'s': list(s), 'n': list(n), 'legs': legs, 'seed': d.draw(st.integers(0, 2 ** 20), label='data_seed'),
          'dtype': dtype or cfg['dtype'], 'drop': 0}
    if allow_drop:
        nb = len(C.allowed_blocks(sym, td['s'], td['n'], legs))
        if nb > 1 and chance(d, 1, 3):
            td['drop'] = d.draw(st.integers(1, 2 ** min(nb, 12) - 2), label='drop')   # some, not all, blocks dropped
        elif nb > 0 and chance(d, 1, 40):
            td['drop'] = 2 ** nb - 1                                                   # entirely empty tensor (wanted, rare)
    return td


def draw_diag_desc(d, cfg, tier, table=None, s=None, dtype=None):
    st = _st()
    table = table or draw_table(d, cfg['sym'], tier)
    td = {'s': [s or d.draw(st.sampled_from([1, -1]))], 'n': [0] * C.nsym(cfg['sym']), 'legs': [table], 'isdiag': True,
          'seed': d.draw(st.integers(0, 2 ** 20)), 'dtype': dtype or cfg['dtype'], 'drop': 0}
    td['s'] = [td['s'][0], -td['s'][0]]
    if len(table['t']) > 1 and chance(d, 1, 4):
        td['drop'] = d.draw(st.integers(0, 2 ** len(table['t']) - 2))
    return td


# ------------------------------------------------------------------------------------------------
# program state
# ------------------------------------------------------------------------------------------------

class State:
    """Pool of model tensors (structure only while drawing; with data while executing)."""

    def __init__(self, cfg, with_data):
        self.cfg = cfg
        self.sym, self.ferm = cfg['sym'], cfg.get('fermionic', False)
        if isinstance(self.ferm, list):
            self.ferm = tuple(self.ferm)
        self.with_data = with_data
        self.pool = []      # MT
        self.exact = []     # bool: integer-exact so far
        self.opq = []       # bool: tensor carries legs produced by block() ('s' history): only unary ops / self-contraction
        self.steps = []
        self.yp = None      # yastn tensors, when drawing in live mode
        self.config = None
        self.dead = False   # live drawing hit an exception in yastn: stop extending the program

    def resolve_mode(self, mode):
        if self.cfg.get('force'):
            return self.cfg['force']
        return mode or self.cfg.get('fusion', 'hard')


class Skip(Exception):
    """The drawn op is not applicable in the present state (draw time only)."""


def cx(v):
    return C.cplx(v)


# ------------------------------------------------------------------------------------------------
# operations:  each has  draw(state, d, tier) -> step | raises Skip ;  model(state, step) -> MT | ('num', value) ;
#              yastn(ypool, step, config) -> Tensor | number
# ------------------------------------------------------------------------------------------------

OPS = {}


def op(name, binary=False, weight=1.0, groups=()):
    def deco(cls):
        cls.name = name
        cls.weight = weight
        cls.groups = set(groups)
        OPS[name] = cls()
        return cls
    return deco


def pick(state, d, pred=None, label='x', opq_ok=False):
    st = _st()
    idx = [i for i, m in enumerate(state.pool) if (pred is None or pred(m)) and (opq_ok or not state.opq[i])]
    if not idx:
        raise Skip()
    # prefer recent tensors
    return d.draw(st.sampled_from(idx[-4:]), label=label)


@op('new', weight=1.0, groups=('create',))
class New:
    def draw(self, state, d, tier):
        st = _st()
        dtype = d.draw(st.sampled_from([state.cfg['dtype'], 'float64', 'complex128']))
        if chance(d, 1, 8):
            return {'op': 'new', 'td': draw_diag_desc(d, state.cfg, tier, dtype=dtype)}
        return {'op': 'new', 'td': draw_tensor_desc(d, state.cfg, tier, dtype=dtype)}

    def model(self, state, step):
        if state.with_data:
            return model_from_desc(state.sym, state.ferm, step['td'], step.get('values', 'int'))
        return structure_from_desc(state.sym, state.ferm, step['td'])

    def yastn(self, yp, step, config):
        return C.build_tensor(config, step['td'], step.get('values', 'int'))[0]


class Unary:
    """Base for ops with a single tensor operand 'x'."""
    pred = staticmethod(lambda m: True)

    opq_ok = True

    def draw(self, state, d, tier):
        x = pick(state, d, self.pred, opq_ok=self.opq_ok)
        step = {'op': self.name, 'x': x}
        self.args(state, d, tier, state.pool[x], step)
        return step

    def args(self, state, d, tier, m, step):
        pass


@op('transpose', weight=2.0, groups=('lazy', 'structure'))
class Transpose(Unary):
    pred = staticmethod(lambda m: m.ndim >= 2 or m.isdiag)

    def args(self, state, d, tier, m, step):
        st = _st()
        step['axes'] = list(d.draw(st.permutations(list(range(m.ndim)))))

    def model(self, state, step):
        return state.pool[step['x']].transpose(step['axes'])

    def yastn(self, yp, step, config):
        return yp[step['x']].transpose(axes=tuple(step['axes']))


@op('moveaxis', groups=('lazy', 'structure'))
class Moveaxis(Unary):
    pred = staticmethod(lambda m: m.ndim >= 2)

    def args(self, state, d, tier, m, step):
        st = _st()
        step['src'] = d.draw(st.integers(-m.ndim, m.ndim - 1))
        step['dst'] = d.draw(st.integers(-m.ndim, m.ndim - 1))

    def model(self, state, step):
        m = state.pool[step['x']]
        s, t = step['src'] % m.ndim, step['dst'] % m.ndim
        axes = [i for i in range(m.ndim) if i != s]
        axes.insert(t, s)
        return m.transpose(axes)

    def yastn(self, yp, step, config):
        return yp[step['x']].moveaxis(step['src'], step['dst'])


@op('T', groups=('lazy', 'structure'))
class TT(Unary):
    def model(self, state, step):
        m = state.pool[step['x']]
        return m.transpose(list(range(m.ndim))[::-1])

    def yastn(self, yp, step, config):
        return yp[step['x']].T


@op('H', groups=('lazy', 'structure', 'conj'))
class HH(Unary):
    def model(self, state, step):
        m = state.pool[step['x']]
        return m.transpose(list(range(m.ndim))[::-1]).conj()

    def yastn(self, yp, step, config):
        return yp[step['x']].H


@op('conj', groups=('conj',))
class Conj(Unary):
    def model(self, state, step):
        return state.pool[step['x']].conj()

    def yastn(self, yp, step, config):
        return yp[step['x']].conj()


@op('conj_blocks', weight=0.5, groups=('conj',))
class ConjBlocks(Unary):
    def model(self, state, step):
        return state.pool[step['x']].conj_blocks()

    def yastn(self, yp, step, config):
        return yp[step['x']].conj_blocks()


@op('flip_signature', weight=0.5, groups=('conj',))
class FlipSignature(Unary):
    def model(self, state, step):
        return state.pool[step['x']].flip_signature()

    def yastn(self, yp, step, config):
        return yp[step['x']].flip_signature()


@op('consume_transpose', weight=1.5, groups=('eager',))
class Consume(Unary):
    def model(self, state, step):
        return state.pool[step['x']].copy()

    def yastn(self, yp, step, config):
        return yp[step['x']].consume_transpose()


@op('copy', weight=0.5, groups=('eager',))
class Copy(Unary):
    def args(self, state, d, tier, m, step):
        st = _st()
        step['how'] = d.draw(st.sampled_from(['copy', 'clone', 'shallow_copy', 'detach', 'to']))

    def model(self, state, step):
        return state.pool[step['x']].copy()

    def yastn(self, yp, step, config):
        x = yp[step['x']]
        how = step['how']
        return x.to(dtype=x.yastn_dtype) if how == 'to' else getattr(x, how)()


@op('scalar', weight=1.5, groups=('elementwise',))
class Scalar(Unary):
    def args(self, state, d, tier, m, step):
        st = _st()
        step['f'] = d.draw(st.sampled_from(['mul', 'rmul', 'div', 'neg', 'abs', 'real', 'imag', 'pow', 'sqrt', 'exp',
                                            'reciprocal', 'rsqrt', 'npmul']))
        if step['f'] in ('mul', 'rmul', 'npmul'):
            step['c'] = d.draw(st.sampled_from(SCALARS if step['f'] != 'npmul' else [2, -1, 0.5]))
        elif step['f'] == 'div':
            step['c'] = d.draw(st.sampled_from([2, -4, 0.5, {'re': 0, 'im': 2}]))
        elif step['f'] == 'pow':
            step['c'] = d.draw(st.sampled_from([1, 2, 3]))
        elif step['f'] == 'exp':
            if m.any_hard() or m.isdiag:
                step['f'] = 'neg'
            else:
                step['c'] = d.draw(st.sampled_from([1, 0.5, -1]))
        elif step['f'] in ('reciprocal', 'rsqrt'):
            step['c'] = d.draw(st.sampled_from([0, 0, 1.5]))

    def model(self, state, step):
        m = state.pool[step['x']]
        f = step['f']
        E = m.E
        cplx = m.cplx
        exact = True
        if f in ('mul', 'rmul', 'npmul'):
            c = cx(step['c'])
            cplx = cplx or isinstance(c, complex)
            if E is not None:
                E = E * c
        elif f == 'div':
            c = cx(step['c'])
            cplx = cplx or isinstance(c, complex)
            if E is not None:
                E = E / c
        elif f == 'neg':
            E = None if E is None else -E
        elif f == 'abs':
            cplx = False
            exact = not m.cplx
            E = None if E is None else np.abs(E)
        elif f == 'real':
            cplx = False
            E = None if E is None else np.real(E).copy()
        elif f == 'imag':
            cplx = False
            E = None if E is None else np.imag(E).copy()
        elif f == 'pow':
            E = None if E is None else E ** step['c']
        elif f == 'sqrt':
            exact = False
            cplx = True if (m.cplx) else cplx
            if E is not None:
                E = np.sqrt(E) if m.cplx else np.sqrt(np.abs(E))
        elif f == 'exp':
            exact = False
            if E is not None:
                E = np.exp(step['c'] * E)  # masked by the stored-block pattern at execution time (see execute_program)
        elif f == 'reciprocal':
            exact = False
            if E is not None:
                out = np.zeros_like(E)
                ind = np.abs(E) > step['c']
                out[ind] = 1. / E[ind]
                E = out
        elif f == 'rsqrt':
            exact = False
            if E is not None:
                out = np.zeros_like(E)
                ind = np.abs(E) > step['c']
                src = E if m.cplx else np.abs(E)
                out[ind] = 1. / np.sqrt(src[ind])
                E = out
        r = m.with_E(E, cplx=cplx)
        r._inexact = not exact
        return r

    def yastn(self, yp, step, config):
        x = yp[step['x']]
        f = step['f']
        if f == 'mul':
            return x * cx(step['c'])
        if f == 'rmul':
            return cx(step['c']) * x
        if f == 'npmul':
            return np.float64(step['c']) * x
        if f == 'div':
            return x / cx(step['c'])
        if f == 'neg':
            return -x
        if f == 'abs':
            return abs(x)
        if f == 'real':
            return x.real()
        if f == 'imag':
            return x.imag()
        if f == 'pow':
            return x ** step['c']
        if f == 'sqrt':
            return x.sqrt() if x.is_complex() else abs(x).sqrt()
        if f == 'exp':
            return x.exp(step=step['c'])
        if f == 'reciprocal':
            return x.reciprocal(cutoff=step['c'])
        if f == 'rsqrt':
            return x.rsqrt(cutoff=step['c']) if x.is_complex() else abs(x).rsqrt(cutoff=step['c'])
        raise ValueError(f)


def draw_groups(d, ndim, min_groups=1):
    """Random ordered partition of range(ndim) into consecutive groups after a random permutation."""
    st = _st()
    perm = list(d.draw(st.permutations(list(range(ndim)))))
    cuts = [d.draw(st.booleans()) for _ in range(ndim - 1)]
    groups, cur = [], [perm[0]]
    for p, c in zip(perm[1:], cuts):
        if c:
            groups.append(cur)
            cur = [p]
        else:
            cur.append(p)
    groups.append(cur)
    return groups


@op('fuse', weight=2.5, groups=('fusion', 'structure'))
class Fuse(Unary):
    opq_ok = False
    pred = staticmethod(lambda m: m.ndim >= 2 and not m.isdiag and max(depth(n) for n in m.tree) < 3)

    def args(self, state, d, tier, m, step):
        st = _st()
        step['axes'] = draw_groups(d, m.ndim)
        step['mode'] = d.draw(st.sampled_from([None, 'hard', 'meta']))

    def model(self, state, step):
        return state.pool[step['x']].fuse(step['axes'], state.resolve_mode(step['mode']))

    def yastn(self, yp, step, config):
        axes = tuple(tuple(g) if len(g) > 1 else g[0] for g in step['axes'])
        return yp[step['x']].fuse_legs(axes=axes, mode=step['mode'])


@op('unfuse', weight=2.0, groups=('fusion', 'structure'))
class Unfuse(Unary):
    opq_ok = False
    pred = staticmethod(lambda m: m.ndim >= 1 and not m.isdiag)

    def args(self, state, d, tier, m, step):
        st = _st()
        fused = [i for i in range(m.ndim) if not m.is_leaf(i)]
        cand = fused if fused and (not chance(d, 1, 5)) else list(range(m.ndim))
        k = d.draw(st.integers(1, len(cand)))
        step['axes'] = sorted(d.draw(st.permutations(cand))[:k])
        step['int'] = len(step['axes']) == 1 and d.draw(st.booleans())

    def model(self, state, step):
        return state.pool[step['x']].unfuse(step['axes'])

    def yastn(self, yp, step, config):
        axes = step['axes'][0] if step.get('int') else tuple(step['axes'])
        return yp[step['x']].unfuse_legs(axes=axes)


@op('meta_to_hard', weight=0.5, groups=('fusion',))
class MetaToHard(Unary):
    opq_ok = False
    pred = staticmethod(lambda m: m.any_meta())

    def model(self, state, step):
        return state.pool[step['x']].meta_to_hard()

    def yastn(self, yp, step, config):
        return yp[step['x']].fuse_meta_to_hard()


@op('add_leg', groups=('structure',))
class AddLeg(Unary):
    pred = staticmethod(lambda m: not m.isdiag and m.ndim <= 5)

    def args(self, state, d, tier, m, step):
        st = _st()
        step['axis'] = d.draw(st.integers(-(m.ndim + 1), m.ndim))
        step['s'] = d.draw(st.sampled_from([1, -1]))
        step['t'] = None if d.draw(st.booleans()) else list(d.draw(st.sampled_from(charge_box(state.sym, 2))))
        step['leg'] = chance(d, 1, 4)

    def _t(self, state, step, m):
        return None if step['t'] is None else tuple(step['t'])

    def model(self, state, step):
        m = state.pool[step['x']]
        t = self._t(state, step, m)
        if step['leg'] and t is None:
            t = gsum(state.sym, [m.n], [-1], step['s'])
        return m.add_leg(step['axis'], step['s'], t)

    def yastn(self, yp, step, config):
        x = yp[step['x']]
        t = None if step['t'] is None else tuple(step['t'])
        if step['leg']:
            if t is None:
                t = gsum(config.sym.SYM_ID, [x.n], [-1], step['s'])
            return x.add_leg(axis=step['axis'], leg=yastn.Leg(config, s=step['s'], t=(t,), D=(1,)))
        if t is not None and len(t) == 1 and step['axis'] % 2:
            t = t[0]  # int form for single-charge symmetries
        return x.add_leg(axis=step['axis'], s=step['s'], t=t)


@op('remove_leg', groups=('structure',))
class RemoveLeg(Unary):
    opq_ok = False
    pred = staticmethod(lambda m: any(m.can_remove_leg(i) for i in range(m.ndim)))

    def args(self, state, d, tier, m, step):
        st = _st()
        cand = [i for i in range(m.ndim) if m.can_remove_leg(i)]
        i = d.draw(st.sampled_from(cand))
        step['axis'] = i - m.ndim if d.draw(st.booleans()) else i

    def model(self, state, step):
        return state.pool[step['x']].remove_leg(step['axis'])

    def yastn(self, yp, step, config):
        return yp[step['x']].remove_leg(axis=step['axis'])


def _flippable(m, i, hard_ok):
    n = m.tree[i]
    if isinstance(n, int):
        return True
    if has_mode(n, 'h'):
        return hard_ok and not has_mode(n, 'm')
    return not hard_ok  # meta-fused: flip_charges accepts it, switch_signature does not


@op('flip_charges', groups=('structure',))
class FlipCharges(Unary):
    opq_ok = False
    pred = staticmethod(lambda m: not m.isdiag and m.ndim >= 1 and any(_flippable(m, i, False) for i in range(m.ndim)))

    def args(self, state, d, tier, m, step):
        st = _st()
        cand = [i for i in range(m.ndim) if _flippable(m, i, False)]
        if len(cand) == m.ndim and chance(d, 1, 4):
            step['axes'] = None
        else:
            k = d.draw(st.integers(1, len(cand)))
            step['axes'] = sorted(d.draw(st.permutations(cand))[:k])
        step['int'] = step['axes'] is not None and len(step['axes']) == 1 and d.draw(st.booleans())

    def model(self, state, step):
        m = state.pool[step['x']]
        axes = range(m.ndim) if step['axes'] is None else step['axes']
        return m.flip_leaves([x for i in axes for x in leaves(m.tree[i])])

    def yastn(self, yp, step, config):
        axes = step['axes']
        if axes is not None:
            axes = axes[0] if step.get('int') else tuple(axes)
        return yp[step['x']].flip_charges(axes=axes)


@op('switch_signature', groups=('structure',))
class SwitchSignature(Unary):
    opq_ok = False
    pred = staticmethod(lambda m: not m.isdiag and m.ndim >= 1 and any(_flippable(m, i, True) for i in range(m.ndim)))

    def args(self, state, d, tier, m, step):
        st = _st()
        cand = [i for i in range(m.ndim) if _flippable(m, i, True)]
        if len(cand) == m.ndim and chance(d, 1, 4):
            step['axes'] = 'all'
        else:
            k = d.draw(st.integers(1, len(cand)))
            step['axes'] = sorted(d.draw(st.permutations(cand))[:k])

    def model(self, state, step):
        m = state.pool[step['x']]
        axes = range(m.ndim) if step['axes'] == 'all' else step['axes']
        return m.flip_leaves([x for i in axes for x in leaves(m.tree[i])])

    def yastn(self, yp, step, config):
        axes = step['axes']
        if axes != 'all':
            axes = axes[0] if len(axes) == 1 else list(axes)
        return yp[step['x']].switch_signature(axes=axes)


def _can_diag(m):
    if m.isdiag:
        return True
    if m.ndim != 2 or m.any_fused() or any(m.n) or m.legs[0].s != -m.legs[1].s:
        return False
    return m.legs[0].compatible(m.legs[1])


@op('diag', groups=('diag',))
class Diag(Unary):
    opq_ok = False
    pred = staticmethod(_can_diag)

    def model(self, state, step):
        return state.pool[step['x']].diag()

    def yastn(self, yp, step, config):
        return yp[step['x']].diag()


def _trace_pairs(m):
    out = []
    for i in range(m.ndim):
        for j in range(m.ndim):
            if i != j and m.compatible_legs(i, m, j, -1):
                out.append((i, j))
    return out


@op('trace', weight=1.5, groups=('contraction',))
class Trace(Unary):
    opq_ok = False
    pred = staticmethod(lambda m: (m.isdiag or len(_trace_pairs(m)) > 0))

    def args(self, state, d, tier, m, step):
        st = _st()
        if m.isdiag:
            step['axes'] = [[0], [1]] if d.draw(st.booleans()) else [[1], [0]]
            return
        pairs = _trace_pairs(m)
        i0, i1 = [], []
        for _ in range(d.draw(st.integers(1, 2))):
            cand = [(i, j) for i, j in pairs if i not in i0 + i1 and j not in i0 + i1]
            if not cand:
                break
            i, j = d.draw(st.sampled_from(cand))
            i0.append(i)
            i1.append(j)
        step['axes'] = [i0, i1]
        step['empty'] = chance(d, 1, 16)

    def model(self, state, step):
        m = state.pool[step['x']]
        if step.get('empty'):
            return m.copy()
        if m.isdiag:
            r = MT(m.sym, m.ferm, [], [], m.n, None if m.E is None else np.trace(m.E).reshape(()), False, m.cplx)
            return r
        return m.trace(step['axes'])

    def yastn(self, yp, step, config):
        x = yp[step['x']]
        if step.get('empty'):
            return x.trace(axes=((), ()))
        a0, a1 = step['axes']
        if len(a0) == 1:
            return x.trace(axes=(a0[0], a1[0]))
        return x.trace(axes=(tuple(a0), tuple(a1)))


@op('remove_zero_blocks', weight=0.4, groups=('structure',))
class RemoveZeroBlocks(Unary):
    def model(self, state, step):
        return state.pool[step['x']].copy()

    def yastn(self, yp, step, config):
        return yp[step['x']].remove_zero_blocks()


@op('swap_gate', weight=1.0, groups=('fermionic',))
class SwapGate(Unary):
    pred = staticmethod(lambda m: m.ndim >= 2 and not m.isdiag and m.sym in FERM_SYMS + ('dense',))

    def args(self, state, d, tier, m, step):
        st = _st()
        npairs = d.draw(st.integers(1, 2))
        axes = []
        for _ in range(2 * npairs):
            k = d.draw(st.integers(1, min(2, m.ndim)))
            axes.append(sorted(d.draw(st.permutations(list(range(m.ndim))))[:k]))
        step['axes'] = axes

    def model(self, state, step):
        m = state.pool[step['x']]
        if not state.ferm or m.E is None:
            return m.copy()
        ax = step['axes']
        sg = m.swap_gate_signs(ax[0::2], ax[1::2])
        return m.with_E(m.E * sg)

    def yastn(self, yp, step, config):
        axes = tuple(tuple(g) if len(g) > 1 else g[0] for g in step['axes'])
        return yp[step['x']].swap_gate(axes=axes)


# ---- binary ops: the partner is a previous pool entry constructed for the purpose -------------------------

def _same_space(a, b, sgn):
    return a.ndim == b.ndim and a.isdiag == b.isdiag and all(a.compatible_legs(i, b, i, sgn) for i in range(a.ndim))


@op('add', weight=2.0, groups=('linear',))
class Add:
    def draw(self, state, d, tier):
        st = _st()
        x = pick(state, d, label='x')
        m = state.pool[x]
        ys = [j for j, b in enumerate(state.pool) if j != x and not state.opq[j] and _same_space(m, b, 1) and b.n == m.n]
        if not ys:
            raise Skip()
        y = d.draw(st.sampled_from(ys[-3:]))
        f = d.draw(st.sampled_from(['add', 'sub', 'addn']))
        step = {'op': 'add', 'x': x, 'y': y, 'f': f}
        if f == 'addn':
            more = d.draw(st.lists(st.sampled_from(ys + [x]), max_size=2))
            step['ys'] = list(d.draw(st.permutations([y] + more)))      # (any position of the differently structured operand)
            step['amps'] = None if chance(d, 1, 4) else \
                [d.draw(st.sampled_from(SCALARS + [None])) for _ in range(len(step['ys']) + 1)]
        return step

    def model(self, state, step):
        a, b = state.pool[step['x']], state.pool[step['y']]
        if step['f'] == 'add':
            return a.add(b, 1)
        if step['f'] == 'sub':
            return a.add(b, -1)
        ts = [a] + [state.pool[j] for j in step['ys']]
        amps = step['amps'] or [None] * len(ts)
        out = None
        for t, am in zip(ts, amps):
            if am is not None:
                c = cx(am)
                t = t.with_E(None if t.E is None else t.E * c, cplx=t.cplx or isinstance(c, complex))
            out = t if out is None else out.add(t, 1)
        return out

    def yastn(self, yp, step, config):
        a, b = yp[step['x']], yp[step['y']]
        if step['f'] == 'add':
            return a + b
        if step['f'] == 'sub':
            return a - b
        ts = [a] + [yp[j] for j in step['ys']]
        amps = None if step['amps'] is None else [None if am is None else cx(am) for am in step['amps']]
        return yastn.add(*ts, amplitudes=amps)


def _dot_candidates(a, b, ca, cb):
    """Pairs (i, j) of logical legs of a (conj'd by ca) and b contractible with each other."""
    A = a.conj() if ca else a
    Bm = b.conj() if cb else b
    return [(i, j) for i in range(A.ndim) for j in range(Bm.ndim) if A.compatible_legs(i, Bm, j, -1)]


@op('tensordot', weight=4.0, groups=('contraction',))
class Tensordot:
    def draw(self, state, d, tier):
        st = _st()
        x = pick(state, d, label='x')
        a = state.pool[x]
        conj = [chance(d, 1, 4), chance(d, 1, 4)]
        cands = []
        for y, b in enumerate(state.pool):
            if (a.isdiag and b.isdiag) or state.opq[y]:
                continue
            pr = _dot_candidates(a, b, conj[0], conj[1])
            if pr or (not a.isdiag and not b.isdiag):
                cands.append((y, pr))
        if not cands:
            raise Skip()
        y, pr = d.draw(st.sampled_from(cands[-4:]))
        b = state.pool[y]
        ia, ib = [], []
        if a.isdiag or b.isdiag:
            other = b if a.isdiag else a
            pr = [(i, j) for i, j in pr if (other.is_leaf(j) if a.isdiag else other.is_leaf(i))]
            if not pr:
                raise Skip()
            i, j = d.draw(st.sampled_from(pr))
            ia, ib = [i], [j]
            # optionally the two-axis form (broadcast + trace)
            pr2 = [(i2, j2) for i2, j2 in pr if i2 not in ia and j2 not in ib and ((a.isdiag and i2 != i) or (b.isdiag and j2 != j))]
            if pr2 and d.draw(st.booleans()):
                i2, j2 = d.draw(st.sampled_from(pr2))
                ia.append(i2)
                ib.append(j2)
        else:
            k = d.draw(st.integers(0, 3))
            for _ in range(k):
                cand = [(i, j) for i, j in pr if i not in ia and j not in ib]
                if not cand:
                    break
                i, j = d.draw(st.sampled_from(cand))
                ia.append(i)
                ib.append(j)
            if a.ndim + b.ndim - 2 * len(ia) > 7:
                raise Skip()
        form = d.draw(st.sampled_from(['tuple', 'tuple', 'matmul', 'method']))
        return {'op': 'tensordot', 'x': x, 'y': y, 'axes': [ia, ib], 'conj': [int(c) for c in conj], 'form': form}

    def model(self, state, step):
        a, b = state.pool[step['x']], state.pool[step['y']]
        if step['conj'][0]:
            a = a.conj()
        if step['conj'][1]:
            b = b.conj()
        ia, ib = step['axes']
        r = a.tensordot(b, (ia, ib))
        # a diagonal operand keeps the position convention of tensordot (remaining leg of a first / of b last)
        return r

    def yastn(self, yp, step, config):
        a, b = yp[step['x']], yp[step['y']]
        ia, ib = step['axes']
        conj = tuple(step['conj'])
        if step['form'] == 'matmul' and conj == (0, 0) and ia == [a.ndim - 1] and ib == [0]:
            return a @ b
        axes = (ia[0], ib[0]) if len(ia) == 1 and step['form'] != 'method' else (tuple(ia), tuple(ib))
        if step['form'] == 'method':
            return a.tensordot(b, axes=axes, conj=conj)
        return yastn.tensordot(a, b, axes=axes, conj=conj)


@op('vdot', weight=1.5, groups=('contraction',))
class Vdot:
    def draw(self, state, d, tier):
        st = _st()
        x = pick(state, d, label='x')
        a = state.pool[x]
        conj = [int((not chance(d, 1, 4))), int(chance(d, 1, 4))]
        A = a.conj() if conj[0] else a
        ys = []
        for y, b in enumerate(state.pool):
            Bm = b.conj() if conj[1] else b
            if not state.opq[y] and _same_space(A, Bm, -1):
                ys.append(y)
        if not ys:
            raise Skip()
        return {'op': 'vdot', 'x': x, 'y': d.draw(st.sampled_from(ys[-3:])), 'conj': conj}

    def model(self, state, step):
        a, b = state.pool[step['x']], state.pool[step['y']]
        if step['conj'][0]:
            a = a.conj()
        if step['conj'][1]:
            b = b.conj()
        if a.E is None:
            return ('num', None)
        if gsum(a.sym, [a.n, b.n], [1, 1]) != tuple(0 for _ in a.n):
            return ('num', 0)
        if a.isdiag:
            r = a.tensordot(b, ([0, 1], [0, 1]))
        else:
            r = a.tensordot(b, (list(range(a.ndim)), list(range(a.ndim))))
        return ('num', complex(r.E))

    def yastn(self, yp, step, config):
        return yastn.vdot(yp[step['x']], yp[step['y']], conj=tuple(step['conj']))


@op('broadcast', weight=1.5, groups=('diag', 'contraction'))
class Broadcast:
    """broadcast of a diagonal tensor on an unfused leg of another tensor."""

    def draw(self, state, d, tier):
        st = _st()
        ds = [i for i, m in enumerate(state.pool) if m.isdiag]
        if not ds:
            raise Skip()
        x = d.draw(st.sampled_from(ds[-3:]))
        a = state.pool[x]
        cands = []
        for y, b in enumerate(state.pool):
            for j in range(b.ndim):
                if not state.opq[y] and b.is_leaf(j) and a.legs[0].compatible(b.legs[leaves(b.tree[j])[0]]):
                    cands.append((y, j))
        if not cands:
            raise Skip()
        y, j = d.draw(st.sampled_from(cands[-6:]))
        b = state.pool[y]
        if b.isdiag:
            j = 0
        return {'op': 'broadcast', 'x': x, 'y': y, 'axis': j - b.ndim if d.draw(st.booleans()) else j}

    def model(self, state, step):
        a, b = state.pool[step['x']], state.pool[step['y']]
        j = step['axis'] % b.ndim
        lf = leaves(b.tree[j])[0]
        bl, al = b.legs[lf], a.legs[0]
        common = {t: D for t, D in bl.tD.items() if t in al.tD}
        vec = None
        if b.E is not None:
            vec = np.zeros(bl.dim, dtype=a.E.dtype)
            ao, bo = al.offsets(), bl.offsets()
            dv = np.diag(a.E)
            for t in common:
                vec[slice(*bo[t])] = dv[slice(*ao[t])]
        if b.isdiag:
            E = None if b.E is None else np.diag(np.diag(b.E) * vec)
            return MT(b.sym, b.ferm, b.legs, [0, 1], b.n, E, True, a.cplx or b.cplx)
        E = None
        if b.E is not None:
            sh = [1] * len(b.legs)
            sh[lf] = bl.dim
            E = b.E * vec.reshape(sh)
        return MT(b.sym, b.ferm, b.legs, b.tree, b.n, E, False, a.cplx or b.cplx)

    def yastn(self, yp, step, config):
        a, b = yp[step['x']], yp[step['y']]
        if step['axis'] % 2:
            return a.broadcast(b, axes=step['axis'])
        return a.broadcast(b, axes=(step['axis'],))[0]


@op('apply_mask', weight=1.0, groups=('diag',))
class ApplyMask:
    """apply_mask with a mask tensor whose non-zero pattern is part of the step (so the result structure is known)."""

    def draw(self, state, d, tier):
        st = _st()
        cands = [(y, j) for y, b in enumerate(state.pool) for j in range(b.ndim)
                 if not state.opq[y] and b.is_leaf(j) and (not b.isdiag or j == 0)]
        if not cands:
            raise Skip()
        y, j = d.draw(st.sampled_from(cands[-6:]))
        b = state.pool[y]
        bl = b.legs[leaves(b.tree[j])[0]]
        ts = list(bl.tD.keys())
        if not ts:
            raise Skip()       # a leg without sectors (entirely empty tensor)
        # mask sectors: a drawn subset of the leg's sectors (possibly with one foreign sector)
        keep = [t for t in ts if (not chance(d, 1, 5))] or ts[:1]
        bits = [[int((not chance(d, 1, 4))) for _ in range(bl.tD[t])] for t in keep]
        if not any(any(b) for b in bits):
            bits[0][0] = 1     # keep at least one element: a leg of dimension zero is not representable
        return {'op': 'apply_mask', 'y': y, 'axis': j - b.ndim if d.draw(st.booleans()) else j,
                'mask': {'t': [list(t) for t in keep], 'bits': bits}, 's': d.draw(st.sampled_from([1, -1])),
                'bool': d.draw(st.booleans())}

    def model(self, state, step):
        b = state.pool[step['y']]
        j = step['axis'] % b.ndim
        lf = leaves(b.tree[j])[0]
        bl = b.legs[lf]
        bo = bl.offsets()
        bits = {tuple(t): np.array(v, dtype=bool) for t, v in zip(step['mask']['t'], step['mask']['bits'])}
        idx, tD = [], {}
        for t in bl.tD:
            if t in bits and bits[t].any():
                nz = np.nonzero(bits[t])[0]
                tD[t] = len(nz)
                idx.extend((bo[t][0] + nz).tolist())
        if b.isdiag:
            legs = [ELeg(b.legs[0].s, tD), ELeg(b.legs[1].s, tD)]
            E = None if b.E is None else np.diag(np.diag(b.E)[idx]) if idx else np.zeros((0, 0), dtype=b.E.dtype)
            return MT(b.sym, b.ferm, legs, [0, 1], b.n, E, True, b.cplx)
        legs = list(b.legs)
        legs[lf] = ELeg(bl.s, tD)
        E = None if b.E is None else np.take(b.E, idx, axis=lf)
        return MT(b.sym, b.ferm, legs, b.tree, b.n, E, False, b.cplx)

    def yastn(self, yp, step, config):
        b = yp[step['y']]
        mk = yastn.Tensor(config=config, s=(step['s'], -step['s']), isdiag=True, dtype='float64')
        for t, v in zip(step['mask']['t'], step['mask']['bits']):
            mk.set_block(ts=tuple(t), Ds=len(v), val=np.array(v, dtype=np.float64))
        if step['bool']:
            mk = mk > 0.5
        return mk.apply_mask(b, axes=step['axis'])


# ------------------------------------------------------------------------------------------------
# partner construction macros (emit several plain steps)
# ------------------------------------------------------------------------------------------------

def perturb_table(d, sym, tier, tD, klass):
    """Sector table for a partner leg: 'equal' | 'subset' | 'superset' | 'overlap' | 'disjoint' (same D on common charges)."""
    st = _st()
    ts = list(tD.keys())
    if klass == 'equal' or len(charge_box(sym, 2)) == 1:
        return dict(tD)
    out = dict(tD)
    box = [t for t in charge_box(sym, 2 if tier == 'quick' else 3) if t not in tD]
    if klass in ('subset', 'overlap') and len(ts) > 1:
        k = d.draw(st.integers(1, len(ts) - 1))
        for t in d.draw(st.permutations(ts))[:k]:
            del out[t]
    if klass in ('superset', 'overlap') and box:
        k = d.draw(st.integers(1, min(2, len(box))))
        for t in d.draw(st.permutations(box))[:k]:
            out[t] = d.draw(st.integers(1, 3))
    if klass == 'disjoint':
        if not box:
            return dict(tD)
        out = {}
        k = d.draw(st.integers(1, min(2, len(box))))
        for t in d.draw(st.permutations(box))[:k]:
            out[t] = d.draw(st.integers(1, 3))
    return out


def tree_build_steps(trees, x):
    """Steps that turn an elementary tensor (pool index x, leaves in order) into one with logical legs `trees`
    (leaf numbers = positions). Hard nodes are created bottom-up first, then meta nodes. Returns list of steps
    (each referring to the previous result by relative index -1)."""
    steps = []
    cur = [i for t in trees for i in leaves(t)]
    assert cur == list(range(len(cur)))
    # represent current logical legs as nodes; repeatedly fuse nodes whose children are all present
    present = list(range(len(cur)))   # nodes currently logical legs (ints or tuples)

    def key(n):
        return repr(n)

    for mode in ('h', 'm'):
        while True:
            groups, used, new_present = [], False, []
            i = 0
            # find nodes of this mode in target whose children are exactly consecutive present legs
            targets = []

            def collect(n):
                if isinstance(n, int):
                    return
                for ch in n[1]:
                    collect(ch)
                targets.append(n)
            for t in trees:
                collect(t)
            pk = [key(p) for p in present]
            while i < len(present):
                hit = None
                for n in targets:
                    if n[0] != mode:
                        continue
                    ck = [key(c) for c in n[1]]
                    if pk[i:i + len(ck)] == ck and key(n) not in pk:
                        hit = n
                        break
                if hit is not None:
                    groups.append(list(range(i, i + len(hit[1]))))
                    new_present.append(hit)
                    i += len(hit[1])
                    used = True
                else:
                    groups.append([i])
                    new_present.append(present[i])
                    i += 1
            if not used:
                break
            steps.append({'op': 'fuse', 'x': -1, 'axes': groups, 'mode': 'hard' if mode == 'h' else 'meta'})
            present = new_present
    assert [key(p) for p in present] == [key(t) for t in trees], (present, trees)
    return steps


def emit_new_like(state, d, tier, trees, legs, n=None, label='partner'):
    """Emit 'new' + fuse steps creating a tensor with logical legs `trees` over elementary legs `legs` (ELeg list)."""
    st = _st()
    jl = [l.to_json() for l in legs]
    td = draw_tensor_desc(d, state.cfg, tier, legs=[{'t': j['t'], 'D': j['D']} for j in jl], s=[l.s for l in legs], n=n,
                          dtype=d.draw(st.sampled_from([state.cfg['dtype'], 'complex128', 'float64'])))
    steps = [{'op': 'new', 'td': td}]
    steps += tree_build_steps(trees, -1)
    return steps


def emit_dot_partner(state, d, tier, x, klass='equal', conj=(0, 0)):
    """Emit steps building a tensor b contractible with chosen logical legs of pool[x]; returns (steps, ia, ib)."""
    st = _st()
    a = state.pool[x]
    A = a.conj() if conj[0] else a
    if a.isdiag or a.ndim == 0 or getattr(a, 'hidden_hfs', False):
        raise Skip()
    k = d.draw(st.integers(1, min(3, a.ndim)))
    ia = list(d.draw(st.permutations(list(range(a.ndim))))[:k])
    nfresh = d.draw(st.integers(0, 2))
    # partner leaves: conj copies of the leaves under the contracted nodes, then fresh leaves
    legs, trees = [], []
    for i in ia:
        lv = leaves(A.tree[i])
        mapping = {old: len(legs) + p for p, old in enumerate(lv)}
        from .model import renumber
        trees.append(renumber(A.tree[i], mapping))
        for xl in lv:
            l = A.legs[xl]
            tD = perturb_table(d, state.sym, tier, l.tD, klass)
            legs.append(ELeg(-l.s, tD))
    for _ in range(nfresh):
        tb = draw_table(d, state.sym, tier)
        trees.append(len(legs))
        legs.append(ELeg(d.draw(st.sampled_from([1, -1])), dict(zip(map(tuple, tb['t']), tb['D']))))
    if conj[1]:
        legs = [l.conj() for l in legs]
    steps = emit_new_like(state, d, tier, trees, legs)
    nb = len(trees)
    perm = list(d.draw(st.permutations(list(range(nb)))))
    ib = [perm.index(p) for p in range(len(ia))]
    if perm != list(range(nb)):
        steps.append({'op': 'transpose', 'x': -1, 'axes': perm})
        if d.draw(st.booleans()):
            steps.append({'op': 'consume_transpose', 'x': -1})
    return steps, ia, ib


def emit_add_partner(state, d, tier, x, klass='equal'):
    st = _st()
    a = state.pool[x]
    if a.isdiag:
        tD = perturb_table(d, state.sym, tier, a.legs[0].tD, klass)
        js = ELeg(a.legs[0].s, tD).to_json()
        td = draw_diag_desc(d, state.cfg, tier, table={'t': js['t'], 'D': js['D']}, s=a.legs[0].s)
        return [{'op': 'new', 'td': td}]
    if getattr(a, 'hidden_hfs', False):
        raise Skip()
    legs = [ELeg(l.s, perturb_table(d, state.sym, tier, l.tD, klass)) for l in a.legs]
    return emit_new_like(state, d, tier, a.tree, legs, n=a.n)


def emit_diag_partner(state, d, tier, x, klass='equal'):
    """Emit a diagonal tensor matching an unfused logical leg j of pool[x]; returns (steps, j)."""
    st = _st()
    b = state.pool[x]
    cand = [j for j in range(b.ndim) if b.is_leaf(j)]
    if not cand or b.isdiag:
        raise Skip()
    j = d.draw(st.sampled_from(cand))
    bl = b.legs[leaves(b.tree[j])[0]]
    tD = perturb_table(d, state.sym, tier, bl.tD, klass)
    js = ELeg(-bl.s, tD).to_json()
    td = draw_diag_desc(d, state.cfg, tier, table={'t': js['t'], 'D': js['D']}, s=d.draw(st.sampled_from([1, -1])))
    return [{'op': 'new', 'td': td}], j


def emit_trace_ready(state, d, tier, klass='equal'):
    """Emit a tensor with p pairs of mutually conjugate legs (optionally fused identically on both sides) and 0-2 free
    legs, in shuffled order; returns (steps, axes) with axes = [i0, i1] ready for trace."""
    st = _st()
    p = d.draw(st.sampled_from([1, 2, 1, 2]))
    nfree = d.draw(st.sampled_from([1, 0, 2, 1]))
    left, right = [], []
    for _ in range(p):
        tb = draw_table(d, state.sym, tier)
        l = ELeg(d.draw(st.sampled_from([1, -1])), dict(zip(map(tuple, tb['t']), tb['D'])))
        left.append(l)
        right.append(ELeg(-l.s, perturb_table(d, state.sym, tier, l.tD, klass)))
    free = []
    for _ in range(nfree):
        tb = draw_table(d, state.sym, tier)
        free.append(ELeg(d.draw(st.sampled_from([1, -1])), dict(zip(map(tuple, tb['t']), tb['D']))))
    fuse_pairs = p == 2 and chance(d, 1, 2)
    legs = left + right + free
    if fuse_pairs:
        mode = d.draw(st.sampled_from(['h', 'm']))
        trees = [(mode, [0, 1]), (mode, [2, 3])] + [4 + k for k in range(nfree)]
    else:
        trees = list(range(len(legs)))
    # total charge: the paired legs cancel, so draw it from the free legs (or zero)
    n = None
    if nfree:
        n = gsum(state.sym, [tuple(d.draw(st.sampled_from(list(l.tD)))) for l in free], [l.s for l in free])
    else:
        n = tuple(0 for _ in C.MODULI[state.sym])
    steps = emit_new_like(state, d, tier, trees, legs, n=n)
    nl = len(trees)
    perm = list(d.draw(st.permutations(list(range(nl)))))
    if perm != list(range(nl)):
        steps.append({'op': 'transpose', 'x': -1, 'axes': perm})
        if chance(d, 1, 3):
            steps.append({'op': 'consume_transpose', 'x': -1})
    pos = {old: new for new, old in enumerate(perm)}
    if fuse_pairs:
        axes = [[pos[0]], [pos[1]]]
    else:
        k = d.draw(st.integers(1, p))
        order = list(d.draw(st.permutations(list(range(p)))))[:k]
        axes = [[pos[q] for q in order], [pos[p + q] for q in order]]
    if chance(d, 1, 2):
        axes = [axes[1], axes[0]]
    return steps, axes


# ------------------------------------------------------------------------------------------------
# interpreter
# ------------------------------------------------------------------------------------------------

def resolve(step, pool_len):
    """Resolve relative operand references (negative indices) to absolute pool indices."""
    out = dict(step)
    for k in ('x', 'y'):
        if k in out and out[k] < 0:
            out[k] = pool_len + out[k]
    if 'ys' in out:
        out['ys'] = [pool_len + j if j < 0 else j for j in out['ys']]
    return out


def _opq_of(state, step, nout=1):
    idx = [step[k] for k in ('x', 'y') if k in step] + list(step.get('ys', [])) + list(step.get('members', []))
    o = any(state.opq[i] for i in idx)
    if step['op'] == 'block':
        o = True
    if step['op'] == 'drop_leg_history' and step.get('axes') is None:
        o = False
    return o


def draw_apply(state, step):
    """Apply a drawn step to the state (draw time). In live mode (state.yp is a list) the step is also executed on
    yastn tensors, which is needed to learn the structure of results that are re-based (factorisations, block)."""
    if state.dead:
        raise Skip()
    step = resolve(step, len(state.pool))
    o = OPS[step['op']]
    r = o.model(state, step)
    state.steps.append(step)
    opq = _opq_of(state, step)
    if state.yp is not None:
        try:
            y = o.yastn(state.yp, step, state.config)
        except Exception:
            state.dead = True      # execution will report it; nothing can follow
            return step
        if isinstance(r, tuple) and r[0] == 'rebase':
            outs = list(y) if isinstance(y, (tuple, list)) else [y]
            try:
                ms = [rebase(yi, state) for yi in outs]
            except Exception:
                state.dead = True
                return step
            for yi, mi in zip(outs, ms):
                state.pool.append(mi)
                state.opq.append(opq or getattr(mi, 'hidden_hfs', False))     # (hidden sub-leg tables: unary operations only, like block() results)
                state.yp.append(yi)
            return step
        if not (isinstance(r, tuple) and r[0] == 'num'):
            if step['op'] == 'remove_leg' and isinstance(y, yastn.Tensor) and len(state.yp[step['x']].get_blocks_charge()) == 0:
                r.n = tuple(y.n)   # (as in execute_program: the charge carried by a leg of an entirely empty tensor is not observable)
            state.yp.append(y)
    elif isinstance(r, tuple) and r[0] == 'rebase':
        raise RuntimeError('re-based operations need live drawing')
    if isinstance(r, tuple) and r[0] == 'num':
        return step
    state.pool.append(r)
    state.opq.append(opq)
    return step


# ------------------------------------------------------------------------------------------------
# drawing whole programs
# ------------------------------------------------------------------------------------------------

DEFAULT_WEIGHTS = {name: o.weight for name, o in OPS.items()}
KLASSES = ['equal', 'equal', 'equal', 'subset', 'subset', 'superset', 'superset', 'overlap', 'overlap', 'overlap', 'disjoint']


def draw_program(d, tier, cfg=None, min_steps=2, max_steps=6, weights=None, klasses=KLASSES, partner_prob=0.6,
                 syms=C.SYMS, first=None, max_pool=None, live=False):
    """Draw a program interactively. Returns the program descriptor (cfg + resolved steps)."""
    st = _st()
    if cfg is None:
        cfg = draw_cfg(d, syms=syms)
    _CUR_POOL.clear()
    if not chance(d, 1, 6):     # mostly a narrow charge pool (many allowed blocks); sometimes the whole box
        draw_charge_pool(d, cfg['sym'], tier)
    state = State(cfg, with_data=live)
    if live:
        state.yp = []
        state.config = C.make_config(cfg)
    w = dict(DEFAULT_WEIGHTS)
    if weights:
        w.update(weights)
    names = [n for n in sorted(w) if w[n] > 0]
    names = sorted(names, key=lambda n: (0 if n == 'tensordot' else 2 if n == 'fuse' else 1, n))  # boundary items get over-sampled
    choices = [n for n in names for _ in range(max(1, int(round(w[n] * 2))))]   # weights by repetition
    draw_apply(state, first or OPS['new'].draw(state, d, tier))
    nsteps = d.draw(st.integers(min_steps, max_steps), label='nsteps')
    attempts = 0
    while len(state.steps) < nsteps + 1 and attempts < 4 * nsteps + 8 and not state.dead:
        attempts += 1
        name = d.draw(st.sampled_from(choices), label='op')
        try:
            if name in ('tensordot', 'add', 'vdot') and d.draw(st.integers(0, 99)) < 100 * partner_prob:
                x = pick(state, d, lambda m: True)
                klass = d.draw(st.sampled_from(klasses), label='klass')
                if name == 'tensordot':
                    conj = (int(chance(d, 1, 4)), int(chance(d, 1, 4)))
                    steps, ia, ib = emit_dot_partner(state, d, tier, x, klass, conj)
                    for s_ in steps:
                        draw_apply(state, s_)
                    y = len(state.pool) - 1
                    if d.draw(st.booleans()):   # b . a instead of a . b
                        step = {'op': 'tensordot', 'x': y, 'y': x, 'axes': [ib, ia], 'conj': [conj[1], conj[0]], 'form': 'tuple'}
                    else:
                        step = {'op': 'tensordot', 'x': x, 'y': y, 'axes': [ia, ib], 'conj': list(conj),
                                'form': d.draw(st.sampled_from(['tuple', 'method', 'matmul']))}
                    step['klass'] = klass
                    a, b = state.pool[step['x']], state.pool[step['y']]
                    if a.ndim + b.ndim - 2 * len(ia) > 7:
                        raise Skip()
                    draw_apply(state, step)
                elif name == 'add':
                    for s_ in emit_add_partner(state, d, tier, x, klass):
                        draw_apply(state, s_)
                    y = len(state.pool) - 1
                    f = d.draw(st.sampled_from(['add', 'sub', 'addn']))
                    step = {'op': 'add', 'x': x, 'y': y, 'f': f, 'klass': klass}
                    if f == 'addn':
                        step['ys'] = list(d.draw(st.permutations([y] + d.draw(st.lists(st.sampled_from([x, y]), max_size=2)))))
                        step['amps'] = None if chance(d, 1, 4) else \
                            [d.draw(st.sampled_from(SCALARS + [None])) for _ in range(len(step['ys']) + 1)]
                    if d.draw(st.booleans()):
                        step['x'], step['y'] = step['y'], step['x']
                        if f == 'addn':
                            step['ys'] = [x if j == y else y for j in step['ys']]
                    draw_apply(state, step)
                else:  # vdot: partner lives in the same space as conj(x) (default conj=(1, 0))
                    conj = [int((not chance(d, 1, 4))), int(chance(d, 1, 4))]
                    a = state.pool[x]
                    if a.isdiag:
                        raise Skip()
                    A = a.conj() if conj[0] else a
                    legs = [ELeg(-l.s, perturb_table(d, state.sym, tier, l.tD, klass)) for l in A.legs]
                    nb = None
                    if (not chance(d, 1, 5)):
                        nb = gneg(state.sym, A.n)
                    if conj[1]:
                        legs = [l.conj() for l in legs]
                        nb = None if nb is None else gneg(state.sym, nb)
                    for s_ in emit_new_like(state, d, tier, A.tree, legs, n=nb):
                        draw_apply(state, s_)
                    draw_apply(state, {'op': 'vdot', 'x': x, 'y': len(state.pool) - 1, 'conj': conj, 'klass': klass})
            elif name == 'broadcast' and chance(d, 2, 3):
                x = pick(state, d, lambda m: not m.isdiag and any(m.is_leaf(j) for j in range(m.ndim)))
                klass = d.draw(st.sampled_from(klasses), label='klass')
                steps, j = emit_diag_partner(state, d, tier, x, klass)
                for s_ in steps:
                    draw_apply(state, s_)
                y = len(state.pool) - 1
                b = state.pool[x]
                how = d.draw(st.sampled_from(['broadcast', 'dot_a', 'dot_b']))
                bs = b.legs[leaves(b.tree[j])[0]].s
                dax = 0 if state.pool[y].legs[0].s == -bs else 1    # the diagonal tensor's leg of opposite signature
                if how == 'broadcast':
                    draw_apply(state, {'op': 'broadcast', 'x': y, 'y': x, 'axis': j - b.ndim if chance(d, 1, 2) else j, 'klass': klass})
                elif how == 'dot_a':    # diagonal tensor first
                    draw_apply(state, {'op': 'tensordot', 'x': y, 'y': x, 'axes': [[dax], [j]],
                                       'conj': [0, 0], 'form': 'tuple', 'klass': klass})
                else:
                    draw_apply(state, {'op': 'tensordot', 'x': x, 'y': y, 'axes': [[j], [dax]],
                                       'conj': [0, 0], 'form': d.draw(st.sampled_from(['tuple', 'method'])), 'klass': klass})
            elif name == 'trace' and chance(d, 2, 3):
                klass = d.draw(st.sampled_from(klasses), label='klass')
                steps, axes = emit_trace_ready(state, d, tier, klass)
                for s_ in steps:
                    draw_apply(state, s_)
                draw_apply(state, {'op': 'trace', 'x': len(state.pool) - 1, 'axes': axes, 'klass': klass})
            else:
                draw_apply(state, OPS[name].draw(state, d, tier))
        except Skip:
            continue
        if max_pool and len(state.pool) > max_pool:
            break
    return {'cfg': cfg, 'steps': state.steps}


# ------------------------------------------------------------------------------------------------
# executing programs with oracles
# ------------------------------------------------------------------------------------------------

class StepFail(Exception):
    def __init__(self, clause, msg, k, step):
        super().__init__(f'{clause} at step {k} ({step.get("op")}): {msg}')
        self.clause, self.msg, self.k, self.step = clause, msg, k, step


def stored_mask(yx, m, config):
    """0/1 array (model layout) of the elements of yx that belong to stored blocks."""
    from .model import observe
    return observe(yx ** 0, m, config).real


def cmp_arrays(got, exp, exact, what=''):
    if got.shape != exp.shape:
        return f'{what}shape {got.shape} != expected {exp.shape}'
    if got.size == 0:
        return None
    if exact:
        if not np.array_equal(got, exp):
            bad = np.argwhere(got != exp)
            i = tuple(bad[0])
            return f'{what}{len(bad)} elements differ (exact), first at {i}: got {got[i]} expected {exp[i]}'
        return None
    scale = max(1.0, float(np.max(np.abs(exp))))
    if not np.allclose(got, exp, rtol=1e-12, atol=1e-12 * scale):
        err = float(np.max(np.abs(got - exp)))
        return f'{what}max abs deviation {err:.3e} (scale {scale:.3e})'
    return None


def _collapse_s(h):
    """Replace every 's(...)' group (legs produced by block()) by 'o': the model treats them as elementary."""
    out, i = [], 0
    while i < len(h):
        if h[i] == 's':
            depth_, j = 0, i + 1
            while True:
                if h[j] == '(':
                    depth_ += 1
                elif h[j] == ')':
                    depth_ -= 1
                    if depth_ == 0:
                        break
                j += 1
            out.append('o')
            i = j + 1
        else:
            out.append(h[i])
            i += 1
    return ''.join(out)


def check_result(y, m, config, exact, observers=True, soft=None):
    """Compare yastn tensor y with model tensor m. Returns (clause, message) or None."""
    from .model import observe, ObserveError
    if not isinstance(y, yastn.Tensor):
        return ('type', f'result is {type(y).__name__}')
    if tuple(y.n) != tuple(m.n):
        return ('charge', f'n = {y.n}, algebra dictates {m.n}')
    if y.isdiag != m.isdiag:
        return ('isdiag', f'isdiag = {y.isdiag}, expected {m.isdiag}')
    if y.ndim != m.ndim:
        return ('ndim', f'ndim = {y.ndim}, expected {m.ndim}')
    es = tuple(m.lsig(i) for i in range(m.ndim))
    if tuple(y.s) != es:
        return ('signature', f's = {y.s}, expected {es}')
    if not m.isdiag:
        hy = tuple(_collapse_s(l.history()) for l in y.get_legs())
        hm = tuple(history(n) for n in m.tree)
        if hy != hm:
            return ('fusion_history', f'leg histories {hy}, expected {hm}')
    if m.cplx and not y.is_complex():   # (a real result stored as complex is fine: values are compared below)
        return ('dtype', f'dtype {y.yastn_dtype}, expected a complex result')
    try:
        got = observe(y, m, config)
    except ObserveError as e:
        return ('legs', str(e))
    r = cmp_arrays(got, m.E, exact)
    if r:
        return ('values', r)
    if observers:
        a0 = y.to_numpy()
        a1 = C.dense_from_blocks(y)
        try:
            a2 = y.to_nonsymmetric().to_numpy()
        except YastnError as e:
            if a0.size == 0 and soft is not None:   # known finding: to_nonsymmetric() of an entirely empty tensor
                soft.append(('observers_empty_to_nonsymmetric', f'to_nonsymmetric().to_numpy() of an empty tensor raises: {e}'))
                a2 = a0
            else:
                return ('observers', f'to_nonsymmetric().to_numpy() raises {e}')
        if a0.shape != a1.shape or not np.array_equal(a0, a1):
            return ('observers', 'a[key]/get_legs re-assembly differs from to_numpy()')
        if a0.shape != a2.shape or not np.array_equal(a0, a2):
            return ('observers', 'to_nonsymmetric().to_numpy() differs from to_numpy()')
        for t_, D_ in zip(y.get_blocks_charge(), y.get_blocks_shape()):
            try:
                if t_ not in y or (not y.isdiag and tuple(np.shape(y[t_])) != tuple(D_)):
                    return ('observers', f'get_blocks_charge / get_blocks_shape list block {t_} of shape {D_}; "in" says {t_ in y}, a[key] has shape {np.shape(y[t_])}')
            except YastnError:
                return ('observers', f'get_blocks_charge lists block {t_} which a[key] does not find')
        shp = tuple(sum(l.D) for l in y.get_legs())
        if (not y.isdiag and a0.shape != shp) or tuple(y.get_shape()) != shp:
            return ('observers', f'get_legs dims {shp} vs to_numpy shape {a0.shape} / get_shape {y.get_shape()}')
    return None


INEXACT_OPS = {('scalar', 'sqrt'), ('scalar', 'exp'), ('scalar', 'reciprocal'), ('scalar', 'rsqrt'), ('scalar', 'div')}


def execute_program(prog, on_step=None, observers=True, config=None):
    """Run the program on yastn and on the model. Calls on_step(k, step, y, m, yp, state) after each step.
    Raises StepFail on the first mismatch. Returns (state, ypool, info)."""
    cfg = prog['cfg']
    config = config or C.make_config(cfg)
    state = State(cfg, with_data=True)
    yp = []
    info = {'nums': 0, 'steps': 0}
    soft = []
    info['soft'] = soft
    for k, step in enumerate(prog['steps']):
        o = OPS[step['op']]
        m = o.model(state, step)
        ops_idx = [step[key] for key in ('x', 'y') if key in step] + list(step.get('ys', []))
        exact = all(state.exact[i] for i in ops_idx)
        if (step['op'], step.get('f')) in INEXACT_OPS and not (step.get('f') == 'div' and not isinstance(cx(step['c']), complex)):
            exact = False
        if step['op'] == 'scalar' and step.get('f') == 'abs' and state.pool[step['x']].cplx:
            exact = False
        if step['op'] == 'new' and step.get('values') == 'float':
            exact = False
        try:
            y = o.yastn(yp, step, config)
        except YastnError as e:
            raise StepFail('unexpected_YastnError', str(e), k, step)
        except Exception as e:   # assert / IndexError / KeyError ... from yastn on model-valid arguments
            raise StepFail('unexpected_' + type(e).__name__, str(e)[:300], k, step)
        info['steps'] += 1
        if isinstance(m, tuple) and m[0] == 'rebase':
            outs = list(y) if isinstance(y, (tuple, list)) else [y]
            if len(outs) != len(m[1]):
                raise StepFail('outputs', f'{len(outs)} outputs, expected {len(m[1])}', k, step)
            for yi, ni in zip(outs, m[1]):
                if not isinstance(yi, yastn.Tensor):
                    raise StepFail('type', f'output is {type(yi).__name__}', k, step)
                if ni is not None and tuple(yi.n) != tuple(ni):
                    raise StepFail('charge', f'n = {yi.n}, algebra dictates {tuple(ni)}', k, step)
                try:
                    mi = rebase(yi, state)
                except (YastnError, AssertionError, IndexError, KeyError, ValueError) as e:
                    raise StepFail('rebase_failed', f'{type(e).__name__}: {e}', k, step)
                state.pool.append(mi)
                state.exact.append(False)
                state.opq.append(_opq_of(state, step) or getattr(mi, 'hidden_hfs', False))
                yp.append(yi)
                if on_step:
                    on_step(k, step, yi, mi, yp, state)
            continue
        if isinstance(m, tuple) and m[0] == 'num':
            info['nums'] += 1
            got = complex(y)
            if exact:
                ok = got == m[1]
            else:
                ok = abs(got - m[1]) <= 1e-11 * max(1.0, abs(m[1]))
            if not ok:
                raise StepFail('number', f'got {got}, expected {m[1]}', k, step)
            if on_step:
                on_step(k, step, y, m, yp, state)
            continue
        if step['op'] == 'remove_leg' and len(yp[step['x']].get_blocks_charge()) == 0 and isinstance(y, yastn.Tensor):
            m.n = tuple(y.n)   # the charge carried by a leg of an entirely empty tensor is not observable
        if step['op'] == 'scalar' and step.get('f') == 'exp':
            m = m.with_E(m.E * stored_mask(yp[step['x']], state.pool[step['x']], config))
        if step['op'] == 'scalar' and step.get('f') == 'sqrt' and state.pool[step['x']].cplx and m.E is not None:
            # the branch of sqrt on the negative real axis depends on the sign of a zero imaginary part (-(3+0j) = -3-0j but (-1)*(3+0j) = -3+0j):
            # the reference is NumPy's sqrt of the dense operand yastn itself holds
            from .model import observe as _obs
            m = m.with_E(np.sqrt(_obs(yp[step['x']], state.pool[step['x']], config).astype(np.complex128)))
        if m.E is not None and m.E.size and np.max(np.abs(m.E)) > 2.0 ** 48:
            exact = False
        try:
            r = check_result(y, m, config, exact, observers, soft)
        except YastnError as e:
            r = ('observer_raises_YastnError', str(e)[:300])
        except (IndexError, KeyError, AssertionError, ValueError, TypeError) as e:
            import traceback
            tb = traceback.extract_tb(e.__traceback__)
            if any('/yastn/' in fr.filename for fr in tb[-2:]):
                r = ('observer_raises_' + type(e).__name__, str(e)[:300])
            else:
                raise
        if r:
            raise StepFail(r[0], r[1], k, step)
        state.pool.append(m)
        state.exact.append(exact)
        state.opq.append(_opq_of(state, step))
        yp.append(y)
        if on_step:
            on_step(k, step, y, m, yp, state)
    return state, yp, info


def program_labels(prog, state):
    """Class labels of a program for the evidence histogram."""
    labs = set()
    cfg = prog['cfg']
    labs.add('sym:' + cfg['sym'])
    if cfg.get('fermionic'):
        labs.add('fermionic')
    labs.add('policy:' + cfg.get('policy', 'default'))
    labs.add('fusion:' + cfg.get('fusion', 'default'))
    for step in prog['steps']:
        labs.add('op:' + step['op'] + ((':' + step['f']) if 'f' in step else ''))
        if 'klass' in step:
            labs.add('klass:' + step['klass'])
        if step['op'] == 'new':
            td = step['td']
            if any(td['n']):
                labs.add('nonzero_charge')
            if td.get('drop'):
                labs.add('dropped_blocks')
            if td.get('isdiag'):
                labs.add('diag')
            if td['dtype'].startswith('complex'):
                labs.add('complex')
    return labs


# ------------------------------------------------------------------------------------------------
# re-basing the model on a yastn result whose layout is implementation-defined (factorisations, block, ...)
# ------------------------------------------------------------------------------------------------

def parse_history(h, counter):
    """History string ('o', 'p(oo)', 'm(p(oo)o)', 's(..)') -> model node; 's' nodes are opaque leaves."""
    pos = [0]
    opaque = {}

    def node():
        c = h[pos[0]]
        if c == 'o':
            pos[0] += 1
            i = counter[0]
            counter[0] += 1
            return i
        start = pos[0]
        pos[0] += 2  # letter and '('
        children = []
        while h[pos[0]] != ')':
            children.append(node())
        pos[0] += 1
        if c == 's':
            # opaque: collapse to a single leaf
            first = leaves_of(children)[0]
            counter[0] = first + 1
            opaque[first] = h[start:pos[0]]
            return first
        return ('h' if c == 'p' else 'm', children)

    def leaves_of(ch):
        out = []
        for x in ch:
            out.extend(leaves(x))
        return out
    n = node()
    return n, opaque


def unfuse_all(y):
    """Remove every 'p' and 'm' fusion layer; legs produced by block() ('s') stay."""
    for _ in range(16):
        if y.isdiag or y.ndim == 0:
            return y
        axes = tuple(i for i, l in enumerate(y.get_legs()) if l.history()[0] in 'pm')
        if not axes:
            return y
        y = y.unfuse_legs(axes=axes)
    return y


def rebase(y, state):
    """Model tensor derived from the yastn tensor itself (used where the result is not unique or its layout is
    implementation-defined). Later steps are again checked independently against this model."""
    counter = [0]
    tree, opaque = [], {}
    if y.isdiag:
        l = y.get_legs(0)
        legs = [ELeg(l.s, dict(zip(l.t, l.D))), ELeg(-l.s, dict(zip(l.t, l.D)))]
        m = MT(state.sym, state.ferm, legs, [0, 1], tuple(y.n), y.to_numpy(), True, y.is_complex())
        return m
    for l in y.get_legs():
        nd, op_ = parse_history(l.history(), counter)
        tree.append(nd)
        opaque.update(op_)
    z = unfuse_all(y)
    zl = z.get_legs(native=True)
    legs = [ELeg(l.s, dict(zip(l.t, l.D))) for l in zl]
    E = z.to_numpy(native=True) if len(zl) else z.to_numpy().reshape(())
    m = MT(state.sym, state.ferm, legs, tree, tuple(y.n), E, False, y.is_complex())
    m.opaque = opaque
    # a hard-fused leg records the sector tables of its sub-legs; when the blocks of y do not cover them (e.g. rand(legs=...) that
    # admits no block), the leaf tables read off the unfused tensor are incomplete and partners must not be built against them
    tabs = []
    for nl in y.get_legs(native=True):
        hf = nl.hf
        tabs += [None] if hf.tree[0] == 1 else [dict(zip(t, D)) for t, D in zip(hf.t, hf.D)]
    m.hidden_hfs = len(tabs) != len(legs) or any(tab is not None and any(l.tD.get(t) != D for t, D in tab.items()) for tab, l in zip(tabs, legs))
    m.check()
    return m


def _bipartitions(m, d):
    st = _st()
    perm = list(d.draw(st.permutations(list(range(m.ndim)))))
    k = d.draw(st.integers(1, m.ndim - 1)) if m.ndim >= 2 else 1
    return perm[:k], perm[k:]


@op('linalg', weight=0.0, groups=('linalg',))
class Linalg:
    """svd / svd_with_truncation / qr / eigh / eig: outputs are re-based; C02 checks well-formedness and charges,
    C04/C13 check the numerical clauses with their own generators."""
    multi = True

    def draw(self, state, d, tier):
        st = _st()
        x = pick(state, d, lambda m: m.ndim >= 2 and not m.isdiag and not getattr(m, 'opaque', None))
        m = state.pool[x]
        f = d.draw(st.sampled_from(['svd', 'qr', 'svd_trunc', 'svd', 'eigh', 'qr']))
        l, r = _bipartitions(m, d)
        step = {'op': 'linalg', 'x': x, 'f': f, 'axes': [l, r], 'sU': d.draw(st.sampled_from([1, -1]))}
        if f in ('svd', 'svd_trunc'):
            step['nU'] = d.draw(st.booleans())
            step['Uaxis'] = d.draw(st.integers(-(len(l) + 1), len(l)))
            step['Vaxis'] = d.draw(st.integers(-(len(r) + 1), len(r)))
            if f == 'svd_trunc':
                step['D_total'] = d.draw(st.sampled_from([1, 2, 3, 5]))
        elif f == 'qr':
            step['Uaxis'] = d.draw(st.integers(-(len(l) + 1), len(l)))
            step['Vaxis'] = d.draw(st.integers(-(len(r) + 1), len(r)))
        else:  # eigh of the gram tensor x . x^dagger over the right group
            step['Uaxis'] = d.draw(st.integers(-(len(l) + 1), len(l)))
        return step

    def expected_n(self, state, step):
        a = state.pool[step['x']]
        zero = tuple(0 for _ in a.n)
        f = step['f']
        if f in ('svd', 'svd_trunc'):
            return [a.n if step['nU'] else zero, zero, zero if step['nU'] else a.n]
        if f == 'qr':
            return [a.n, zero]
        return [zero, zero]

    def model(self, state, step):
        return ('rebase', self.expected_n(state, step))

    def yastn(self, yp, step, config):
        x = yp[step['x']]
        l, r = step['axes']
        axes = (tuple(l), tuple(r))
        f = step['f']
        if f == 'svd':
            return x.svd(axes=axes, sU=step['sU'], nU=step['nU'], Uaxis=step['Uaxis'], Vaxis=step['Vaxis'])
        if f == 'svd_trunc':
            return x.svd_with_truncation(axes=axes, sU=step['sU'], nU=step['nU'], Uaxis=step['Uaxis'], Vaxis=step['Vaxis'],
                                         D_total=step['D_total'])
        if f == 'qr':
            return x.qr(axes=axes, sQ=step['sU'], Qaxis=step['Uaxis'], Raxis=step['Vaxis'])
        g = yastn.tensordot(x, x, axes=(tuple(r), tuple(r)), conj=(0, 1))
        k = len(l)
        return g.eigh(axes=(tuple(range(k)), tuple(range(k, 2 * k))), sU=step['sU'], Uaxis=step['Uaxis'])


@op('ctor', weight=0.0, groups=('create',))
class Ctor:
    """Constructors with legs= taken from an existing tensor (possibly fused / meta legs) or with s, t, D."""
    multi = True

    def draw(self, state, d, tier):
        st = _st()
        x = pick(state, d, lambda m: not getattr(m, 'opaque', None))
        m = state.pool[x]
        f = d.draw(st.sampled_from(['rand', 'zeros', 'ones', 'rand_like', 'eye', 'randR', 'randC']))
        step = {'op': 'ctor', 'x': x, 'f': f, 'seed': d.draw(st.integers(0, 2 ** 16))}
        if f == 'eye':
            cand = [i for i in range(m.ndim) if not has_mode(m.tree[i], 'm')]
            if not cand or m.isdiag:
                raise Skip()
            step['axis'] = d.draw(st.sampled_from(cand))
            step['isdiag'] = m.is_leaf(step['axis']) and d.draw(st.booleans())
        elif f != 'rand_like':
            if m.isdiag:
                raise Skip()
            k = d.draw(st.integers(0, min(m.ndim, 4)))
            step['axes'] = list(d.draw(st.permutations(list(range(m.ndim))))[:k])
            step['conj'] = [int(chance(d, 1, 3)) for _ in range(k)]
            step['n'] = 'auto' if not chance(d, 1, 4) else list(d.draw(st.sampled_from(charge_box(state.sym, 1))))
            step['dtype'] = d.draw(st.sampled_from([None, 'float64', 'complex128']))
        return step

    def model(self, state, step):
        zero = tuple(0 for _ in C.MODULI[state.sym])
        if step['f'] == 'eye':
            return ('rebase', [zero])
        if step['f'] == 'rand_like':
            return ('rebase', [state.pool[step['x']].n])
        return ('rebase', [None])   # charge checked against the request inside yastn()

    def yastn(self, yp, step, config):
        x = yp[step['x']]
        C.reseed_backend(step['seed'])
        f = step['f']
        if f == 'rand_like':
            return (yastn.rand_like(x),)
        if f == 'eye':
            leg = x.get_legs(step['axis'])
            if step['isdiag']:
                return (yastn.eye(config, legs=leg),)
            return (yastn.eye(config, legs=[leg, leg.conj()], isdiag=False),)
        legs = [x.get_legs(i) for i in step['axes']]
        legs = [l.conj() if c else l for l, c in zip(legs, step['conj'])]
        sym = config.sym.SYM_ID
        if step['n'] == 'auto':
            picks, sigs = [], []
            for l in legs:
                for nl in (l.legs if hasattr(l, 'legs') else (l,)):
                    if nl.t:
                        picks.append(nl.t[0])
                        sigs.append(nl.s)
            n = gsum(sym, picks, sigs) if picks else tuple(0 for _ in C.MODULI[sym])
            # for hard-fused legs the fused charge already includes the leg's own signature
        else:
            n = tuple(step['n'])
        kw = {} if step['dtype'] is None else {'dtype': step['dtype']}
        r = getattr(yastn, f)(config, legs=legs, n=n, **kw)
        if tuple(r.n) != tuple(n):
            raise YastnError(f'constructor returned charge {r.n}, requested {n}')
        return (r,)


@op('drop_leg_history', weight=0.0, groups=('structure',))
class DropLegHistory:
    multi = True

    def draw(self, state, d, tier):
        st = _st()
        x = pick(state, d, lambda m: m.any_hard() and not m.isdiag)
        m = state.pool[x]
        cand = [i for i in range(m.ndim) if has_mode(m.tree[i], 'h')]
        step = {'op': 'drop_leg_history', 'x': x, 'axes': None if chance(d, 1, 3) else [d.draw(st.sampled_from(cand))]}
        return step

    def model(self, state, step):
        return ('rebase', [state.pool[step['x']].n])

    def yastn(self, yp, step, config):
        axes = step['axes']
        return (yp[step['x']].drop_leg_history(axes=None if axes is None else axes[0]),)


@op('block', weight=0.0, groups=('block',))
class Block:
    """yastn.block of 2-3 tensors sharing signature and charge, placed along one or two blocked axes."""
    multi = True

    def draw(self, state, d, tier):
        st = _st()
        x = pick(state, d, lambda m: not m.isdiag and 1 <= m.ndim <= 4)
        a = state.pool[x]
        ys = [j for j, b in enumerate(state.pool) if not b.isdiag and b.ndim == a.ndim and b.n == a.n and
              all(shape_of(to_hard_node(a.tree[i])) == shape_of(to_hard_node(b.tree[i])) and
                  all(a.legs[p].s == b.legs[q].s for p, q in zip(leaves(a.tree[i]), leaves(b.tree[i])))
                  for i in range(a.ndim))]
        if state.yp is not None:
            # legs produced by an earlier block() ('s' histories) look elementary to the model; yastn only blocks members whose legs have
            # the same fusion history, so this is read off the live tensors
            hx = [l.history() for l in state.yp[x].get_legs()]
            ys = [j for j in ys if [l.history() for l in state.yp[j].get_legs()] == hx]
        if not ys:
            raise Skip()
        k = d.draw(st.integers(1, min(3, len(ys))))
        members = [x] + list(d.draw(st.permutations(ys))[:k])
        nb = d.draw(st.integers(1, min(2, a.ndim)))
        baxes = sorted(d.draw(st.permutations(list(range(a.ndim))))[:nb])
        common = [i for i in range(a.ndim) if i not in baxes]
        # common (non-blocked) legs must be compatible among all members
        for i in common:
            for j in members[1:]:
                if not a.compatible_legs(i, state.pool[j], i, 1):
                    raise Skip()
        # positions: distinct coordinates on the blocked axes
        coords = list(itertools.product(range(len(members)), repeat=nb))
        pos = d.draw(st.permutations(coords))[:len(members)]
        # members placed at the same coordinate along one blocked axis must be compatible on that axis
        for ai, ax in enumerate(baxes):
            for p, q in itertools.combinations(range(len(members)), 2):
                if pos[p][ai] == pos[q][ai] and not state.pool[members[p]].compatible_legs(ax, state.pool[members[q]], ax, 1):
                    raise Skip()
        return {'op': 'block', 'x': x, 'members': members, 'pos': [list(p) for p in pos], 'common': common}

    def model(self, state, step):
        return ('rebase', [state.pool[step['x']].n])

    def yastn(self, yp, step, config):
        tens = {tuple(p) if len(p) > 1 else p[0]: yp[j] for p, j in zip(step['pos'], step['members'])}
        common = step['common']
        return (yastn.block(tens, common_legs=tuple(common) if common else None),)


def to_hard_node(n):
    from .model import to_hard
    return to_hard(n)


def draw_tree_plan(d, n, max_depth=3):
    """Random fusion forest over n leaves (in a random order): returns (perm, trees) where trees are nodes over positions
    0..n-1 after the permutation. Hard nodes never contain meta nodes (a hard fusion turns earlier meta fusions hard)."""
    from .model import to_hard
    st = _st()
    perm = list(d.draw(st.permutations(list(range(n)))))
    items = list(range(n))
    for level in range(max_depth):
        if len(items) < 2:
            break
        if level > 0 and chance(d, 1, 3):
            break
        new, i = [], 0
        while i < len(items):
            k = d.draw(st.sampled_from([1, 2, 2, 3, 1, 2]))
            grp = items[i:i + k]
            i += len(grp)
            if len(grp) == 1:
                new.append(grp[0])
            else:
                mode = d.draw(st.sampled_from(['h', 'm', 'h']))
                if mode == 'h':
                    grp = [to_hard(g) for g in grp]
                new.append((mode, grp))
        if new == items:
            continue
        items = new
    return perm, items


def plan_steps(perm, trees, lazy=True):
    steps = []
    if perm != sorted(perm):
        steps.append({'op': 'transpose', 'x': -1, 'axes': perm})
    steps += tree_build_steps(trees, -1)
    return steps


# ---- inputs for factorisation checks (C04, C13, C18) ---------------------------------------------------------

DECOR = {name: 0.0 for name in OPS}
DECOR.update({'transpose': 2.5, 'fuse': 2.5, 'conj': 0.5, 'consume_transpose': 0.5, 'unfuse': 0.5, 'flip_signature': 0.3})


def draw_input_program(data, tier, values=None, min_rank=2, max_rank=4):
    """A tensor with float / integer data plus 0-2 decorations (lazy transposes, fusions)."""
    from hypothesis import strategies as st
    cfg = draw_cfg(data)
    _CUR_POOL.clear()
    if not chance(data, 1, 6):
        draw_charge_pool(data, cfg['sym'], tier)
    rank = data.draw(st.sampled_from([r for r in [2, 3, 4, 3, 5, 2] if min_rank <= r <= max_rank]))
    td = draw_tensor_desc(data, cfg, tier, rank=rank)
    first = {'op': 'new', 'td': td, 'values': values or data.draw(st.sampled_from(['float', 'float', 'int']))}
    prog = draw_program(data, tier, cfg=cfg, min_steps=0, max_steps=2, weights=DECOR, partner_prob=0.0, first=first)
    return prog


def last_tensor(prog):
    state, yp, info = execute_program(prog, observers=False)
    return yp[-1], state.pool[-1]


