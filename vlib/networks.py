"""Random small tensor networks for ncon / einsum (C01 'einsum' part, C05 network part).

A network descriptor lists tensors (descriptors as in vlib.common.build_tensor), the integer label of every leg
(ncon convention: positive = contracted, non-positive = output position), conjugation flags, an optional explicit
contraction order and optional swap pairs. The reference is numpy.einsum on the dense arrays with one explicit sign
matrix per swap pair (sign = (-1)^(p(t_i).p(t_j)) of the charges flowing through the two labelled legs).
"""
import itertools

import numpy as np

from . import common as C
from .common import yastn, YastnError, gsum, gneg, swap_sign
from .model import ELeg, MT, model_from_desc, embed_axis, observe, ObserveError
from . import program as P
from .runner import Res, Violation, Reject

LET = 'abcdefghijklmnopqrstuvwxyz'


def draw_network(d, tier, cfg=None, max_tensors=4, swaps=False, syms=C.SYMS, odd_ok=True):
    from hypothesis import strategies as st
    if cfg is None:
        cfg = P.draw_cfg(d, syms=syms)
    sym = cfg['sym']
    P._CUR_POOL.clear()
    if not P.chance(d, 1, 6):
        P.draw_charge_pool(d, sym, tier)
    nt = d.draw(st.sampled_from([2, 3, 2, 3, max_tensors, 1, 3, 2]))
    nt = min(nt, max_tensors)
    nc = d.draw(st.sampled_from([1, 2, 3, 2, 4, 0, 3, 2]))
    no = d.draw(st.sampled_from([1, 2, 0, 3, 2, 1]))
    slots = [[] for _ in range(nt)]       # per tensor: list of (label, ELeg)
    klasses = ['equal', 'equal', 'equal', 'subset', 'overlap', 'superset']
    for c in range(1, nc + 1):
        a = d.draw(st.integers(0, nt - 1))
        b = d.draw(st.integers(0, nt - 1))
        if len(slots[a]) >= 4 or len(slots[b]) >= 4 or (a == b and len(slots[a]) >= 3):
            continue
        tb = P.draw_table(d, sym, tier, max_sectors=3, maxD=2)
        l = ELeg(d.draw(st.sampled_from([1, -1])), dict(zip(map(tuple, tb['t']), tb['D'])))
        l2 = ELeg(-l.s, P.perturb_table(d, sym, tier, l.tD, d.draw(st.sampled_from(klasses))))
        slots[a].append((c, l))
        slots[b].append((c, l2))
    outs = 0
    for _ in range(no):
        a = d.draw(st.integers(0, nt - 1))
        if len(slots[a]) >= 4:
            continue
        tb = P.draw_table(d, sym, tier, max_sectors=3, maxD=2)
        slots[a].append((-outs, ELeg(d.draw(st.sampled_from([1, -1])), dict(zip(map(tuple, tb['t']), tb['D'])))))
        outs += 1
    # one globally consistent charge assignment, so that the contraction has at least one contributing block
    tabs = {}
    for sl in slots:
        for lab, l in sl:
            tabs.setdefault(lab, []).append(set(l.tD))
    assign = {}
    for lab, sets in tabs.items():
        common = sorted(set.intersection(*sets)) or sorted(sets[0])
        assign[lab] = d.draw(st.sampled_from(common))
    consistent = not P.chance(d, 1, 10)
    # shuffle slot order inside every tensor
    tensors, inds, conjs = [], [], []
    for sl in slots:
        sl = list(d.draw(st.permutations(sl))) if sl else sl
        cj = int(P.chance(d, 1, 4))
        legs = [l.conj() if cj else l for _, l in sl]
        if legs:
            nn = None
            if consistent and all(assign[lab] in l.tD for lab, l in sl):
                nn = gsum(sym, [assign[lab] for lab, _ in sl], [l.s for l in legs])
            td = P.draw_tensor_desc(d, cfg, tier, legs=[{'t': l.to_json()['t'], 'D': l.to_json()['D']} for l in legs],
                                    s=[l.s for l in legs], n=nn, dtype=d.draw(st.sampled_from([cfg['dtype'], 'complex128'])))
        else:
            td = P.draw_tensor_desc(d, cfg, tier, rank=0)
        tensors.append(td)
        inds.append([lab for lab, _ in sl])
        conjs.append(cj)
    labels = sorted({lab for ii in inds for lab in ii if lab > 0})
    # relabel contracted labels to 1..k (some were skipped)
    remap = {lab: i + 1 for i, lab in enumerate(labels)}
    inds = [[remap.get(lab, lab) for lab in ii] for ii in inds]
    k = len(labels)
    # relabel so that the default (ascending) order is one that ncon accepts; optionally give another valid order
    vo = valid_order(inds, d)
    remap = {lab: i + 1 for i, lab in enumerate(vo)}
    inds = [[remap.get(lab, lab) for lab in ii] for ii in inds]
    order = None
    if k >= 2 and P.chance(d, 1, 2):
        order = valid_order(inds, d)
        if P.chance(d, 1, 8):
            order = list(d.draw(st.permutations(list(range(1, k + 1)))))   # possibly rejected by ncon (contract)
    net = {'cfg': cfg, 'tensors': tensors, 'inds': inds, 'conjs': conjs, 'order': order, 'swap': []}
    if swaps:
        all_labels = list(range(1, k + 1)) + [-o for o in range(outs)]
        if len(all_labels) >= 2:
            ns = d.draw(st.sampled_from([1, 2, 1, 3, 0, 2]))
            for _ in range(ns):
                a, b = d.draw(st.permutations(all_labels))[:2]
                net['swap'].append([a, b])
                if (trace_cross_swaps(net) or partial_parallel_cross_swaps(net)) and not P.chance(d, 1, 12):
                    net['swap'].pop()      # known findings (see known_findings.json): keep these classes rare
    net['api'] = d.draw(st.sampled_from(['ncon', 'einsum', 'ncon']))
    return net


def valid_order(inds, d=None, rng=None):
    """A contraction order accepted by ncon: traces first, then repeatedly all labels joining one current pair."""
    from hypothesis import strategies as st
    where = {}
    for ti, ii in enumerate(inds):
        for lab in ii:
            if lab > 0:
                where.setdefault(lab, []).append(ti)

    def shuffle(x):
        x = sorted(x)
        if len(x) < 2:
            return x
        if d is not None:
            return list(d.draw(st.permutations(x)))
        return [x[i] for i in rng.permutation(len(x))]

    comp = {ti: ti for ti in range(len(inds))}
    order = []
    remaining = set(where)
    traces = [lab for lab in remaining if where[lab][0] == where[lab][1]]
    # traces on the same tensor must be adjacent: group by tensor
    by_t = {}
    for lab in traces:
        by_t.setdefault(where[lab][0], []).append(lab)
    for ti in shuffle(list(by_t)):
        order.extend(shuffle(by_t[ti]))
    remaining -= set(traces)
    while remaining:
        lab = shuffle(list(remaining))[0]
        pa = frozenset(comp[t] for t in where[lab])
        grp = [l for l in remaining if frozenset(comp[t] for t in where[l]) == pa]
        order.extend(shuffle(grp))
        remaining -= set(grp)
        a, b = tuple(pa) if len(pa) == 2 else (tuple(pa)[0], tuple(pa)[0])
        for t in comp:
            if comp[t] == b:
                comp[t] = a
        # labels that now sit inside one component would be traces after a dot: contract them right away
        inner = [l for l in remaining if len({comp[t] for t in where[l]}) == 1]
        order.extend(shuffle(inner))
        remaining -= set(inner)
    return order


def trace_cross_swaps(net):
    """Swap pairs joining a traced label (both endpoints on one tensor) with a label that has no endpoint on that tensor."""
    where = {}
    for ti, ii in enumerate(net['inds']):
        for lab in ii:
            where.setdefault(lab, []).append(ti)
    out = []
    for a, b in net.get('swap', []):
        for x, y in ((a, b), (b, a)):
            wx = where.get(x, [])
            if len(wx) == 2 and wx[0] == wx[1] and wx[0] not in where.get(y, []):
                out.append([a, b])
                break
    return out


def partial_parallel_cross_swaps(net):
    """Swap pairs (a, b) where a is one of >= 2 labels contracted between the same two tensors T1, T2, b has no endpoint
    on T1 or T2, and b is not swapped with every one of those parallel labels."""
    where = {}
    for ti, ii in enumerate(net['inds']):
        for lab in ii:
            where.setdefault(lab, []).append(ti)
    pairs = {}
    for lab, w in where.items():
        if lab > 0 and len(w) == 2 and w[0] != w[1]:
            pairs.setdefault(frozenset(w), []).append(lab)
    sw = {frozenset(p) for p in net.get('swap', []) if p[0] != p[1]}
    # an odd number of identical swaps acts as one, an even number cancels
    cnt = {}
    for p in net.get('swap', []):
        cnt[frozenset(p)] = cnt.get(frozenset(p), 0) + 1
    act = {k_ for k_, v in cnt.items() if v % 2}
    out = []
    for pr, labs in pairs.items():
        if len(labs) < 2:
            continue
        others = {lab for lab, w in where.items() if not (set(w) & pr)}
        for b in others:
            crossed = [a for a in labs if frozenset((a, b)) in act]
            if 0 < len(crossed) < len(labs):
                out.append([crossed[0], b])
    return out


def label_letter(lab, k):
    return LET[lab - 1] if lab > 0 else LET[k + (-lab)]


def reference(net, order_irrelevant=True):
    """Dense reference value: (MT model of the result, list of model tensors)."""
    cfg = net['cfg']
    sym = cfg['sym']
    ferm = cfg.get('fermionic', False)
    if isinstance(ferm, list):
        ferm = tuple(ferm)
    models = []
    for td, cj in zip(net['tensors'], net['conjs']):
        m = model_from_desc(sym, ferm, td)
        models.append(m.conj() if cj else m)
    k = max([lab for ii in net['inds'] for lab in ii if lab > 0], default=0)
    # union table per label
    tables = {}
    ends = {}
    for ti, ii in enumerate(net['inds']):
        for ax, lab in enumerate(ii):
            l = models[ti].legs[ax]
            ends.setdefault(lab, []).append((ti, ax))
            if lab in tables:
                tables[lab] = ELeg(tables[lab].s, {**tables[lab].tD, **l.tD})
            else:
                tables[lab] = ELeg(l.s, dict(l.tD))
    ops, subs = [], []
    for ti, ii in enumerate(net['inds']):
        E = models[ti].E
        for ax, lab in enumerate(ii):
            l = models[ti].legs[ax]
            E = embed_axis(E, ax, l, ELeg(l.s, tables[lab].tD))
        ops.append(E)
        subs.append(''.join(label_letter(lab, k) for lab in ii))
    for a, b in net.get('swap', []):
        ta, tb = tables[a], tables[b]
        S = np.ones((ta.dim, tb.dim))
        oa, ob = ta.offsets(), tb.offsets()
        for t0, (l0, h0) in oa.items():
            for t1, (l1, h1) in ob.items():
                S[l0:h0, l1:h1] = swap_sign(sym, t0, t1, ferm)
        ops.append(S)
        subs.append(label_letter(a, k) + label_letter(b, k))
    nout = len([lab for ii in net['inds'] for lab in ii if lab <= 0])
    out = ''.join(label_letter(-o, k) for o in range(nout))
    E = np.einsum(','.join(subs) + '->' + out, *ops)
    legs = []
    for o in range(nout):
        ti, ax = ends[-o][0]
        legs.append(models[ti].legs[ax])
    n = gsum(sym, [m.n for m in models], [1] * len(models)) if models else ()
    cplx = any(m.cplx for m in models)
    return MT(sym, ferm, legs, list(range(nout)), n, E, False, cplx), models


def run_yastn(net, config, order='given', api=None):
    ts = [C.build_tensor(config, td)[0] for td in net['tensors']]
    inds = [tuple(ii) for ii in net['inds']]
    order = net['order'] if isinstance(order, str) else order
    swap = [tuple(p) for p in net.get('swap', [])] or None
    api = api or net.get('api', 'ncon')
    k = max([lab for ii in inds for lab in ii if lab > 0], default=0)
    if api == 'einsum':
        sub = ','.join(('*' if cj else '') + ''.join(label_letter(lab, k) for lab in ii) for ii, cj in zip(inds, net['conjs']))
        nout = len([lab for ii in inds for lab in ii if lab <= 0])
        sub += '->' + ''.join(label_letter(-o, k) for o in range(nout))
        kw = {}
        if order is not None:
            kw['order'] = ''.join(label_letter(o, k) for o in order)
        if swap:
            kw['swap'] = ','.join(label_letter(a, k) + label_letter(b, k) for a, b in swap)
        return yastn.einsum(sub, *ts, **kw)
    return yastn.ncon(ts, inds, conjs=tuple(net['conjs']), order=order, swap=swap)


def has_invalid_outer(net):
    return False


def execute_network(net, all_orders=False, max_orders=24):
    """Returns (labels, nontrivial, stats). Raises Violation / Reject."""
    config = C.make_config(net['cfg'])
    ref, models = reference(net)
    k = max([lab for ii in net['inds'] for lab in ii if lab > 0], default=0)
    stats = {'orders': 0, 'rejected_orders': 0, 'soft': []}
    orders = [net['order']]
    if all_orders and k >= 2:
        perms = list(itertools.permutations(range(1, k + 1)))
        if len(perms) > max_orders:
            rng = np.random.default_rng(net['tensors'][0].get('seed', 0))
            perms = [perms[i] for i in rng.choice(len(perms), size=max_orders, replace=False)]
        orders = [None] + [list(p) for p in perms]
    results = []
    for od in orders:
        for api in ((net.get('api', 'ncon'),) if not all_orders else ('ncon',)):
            try:
                y = run_yastn(net, config, order=od, api=api)
            except YastnError as e:
                msg = str(e)
                if 'Likely inefficient order' in msg or 'Indices of legs to contract do not match' in msg:
                    stats['rejected_orders'] += 1
                    continue
                raise Violation('network:unexpected_YastnError', f'order={od}: {msg}')
            except Exception as e:
                raise Violation('network:unexpected_' + type(e).__name__, f'order={od}: {str(e)[:200]}')
            stats['orders'] += 1
            r = P.check_result(y, ref, config, exact=True, observers=not all_orders, soft=stats['soft'])
            if r:
                raise Violation(f'network:{r[0]}' + (':swap' if net.get('swap') else ''), f'order={od} api={api}: {r[1]}')
            results.append(y)
    if stats['orders'] == 0:
        raise Reject('order_rejected_by_ncon')
    for y in results[1:]:
        if y.get_legs() != results[0].get_legs() or not np.array_equal(y.to_numpy(), results[0].to_numpy()):
            raise Violation('network:order_dependence', 'two contraction orders give different tensors')
    labels = {'sym:' + net['cfg']['sym'], 'api:' + net.get('api', 'ncon'), f'tensors:{len(net["tensors"])}'}
    if net['cfg'].get('fermionic'):
        labels.add('fermionic')
    if any(net['conjs']):
        labels.add('conj')
    if net['order'] is not None:
        labels.add('explicit_order')
    if any(len(set(ii)) < len(ii) for ii in net['inds']):
        labels.add('trace')
    if net.get('swap'):
        labels.add('swap')
        if any(a > 0 or b > 0 for a, b in net['swap']):
            labels.add('swap_on_contracted')
    odd = any(any(C.parity(net['cfg']['sym'], m.n, ref.ferm)) for m in models)
    if odd:
        labels.add('parity_odd_tensor')
    return labels, stats, ref


def draw_network_case(data, tier):
    return draw_network(data, tier, swaps=False)


def execute_network_case(net):
    labels, stats, ref = execute_network(net, all_orders=False)
    if stats['soft']:
        raise Violation(stats['soft'][0][0], stats['soft'][0][1])
    nblocks = max(len(C.allowed_blocks(net['cfg']['sym'], td['s'], td['n'], td['legs'])) for td in net['tensors'])
    k = max([lab for ii in net['inds'] for lab in ii if lab > 0], default=0)
    nt = nblocks >= 2 and k >= 1 and len(net['tensors']) >= 2
    return Res(labels=sorted(labels), nontrivial=nt)
