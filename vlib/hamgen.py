"""Random Hermitian Hamiltonians as Hterm descriptors (for C09, C10, C18 and PEPS references)."""
import numpy as np

from . import common as C
from . import mpsgen as G
from . import jw as JW
import yastn.tn.mps as mps

COUP = [1.0, -1.0, 0.5, 0.7, -0.3, 1.3, 2.0]


def ladder_ops(name, sym):
    """(raising-like op, its adjoint, list of neutral hermitian ops) by family; the hopping term  a b^+ + h.c. conserves every symmetry."""
    if name == 'SpinlessFermions':
        return [('cp', 'c')], ['n']
    if name in ('SpinfulFermions', 'SpinfulFermions_tJ'):
        return [('cpu', 'cu'), ('cpd', 'cd')], ['nu', 'nd']
    if name == 'Spin12':
        return [('sp', 'sm')], ['sz']
    if name == 'Spin1':
        return [('sp', 'sm')], ['sz']
    return [], []


def draw_hamiltonian(d, fam, N, tier, complex_ok=True):
    """Hermitian term list [{'amp', 'pos', 'ops'}] (same format as checks/c07)."""
    from hypothesis import strategies as st
    name, kw = G.FAMILIES[fam]
    hops, dens = ladder_ops(name, kw['sym'])
    terms = []
    nh = d.draw(st.sampled_from([1, 2, 3, 4, 2]))
    for _ in range(nh):
        if not hops:
            break
        a, b = d.draw(st.sampled_from(hops))
        if N < 2:
            break
        i, j = d.draw(st.permutations(list(range(N))))[:2]
        t = d.draw(st.sampled_from(COUP))
        if complex_ok and d.draw(st.integers(0, 3)) == 0:
            t = {'re': t, 'im': d.draw(st.sampled_from([0.5, -0.7, 1.0]))}
        tc = {'re': t['re'], 'im': -t['im']} if isinstance(t, dict) else t
        terms.append({'amp': t, 'pos': [i, j], 'ops': [a, b]})
        terms.append({'amp': tc, 'pos': [j, i], 'ops': [a, b]})
    for _ in range(d.draw(st.sampled_from([1, 2, 3, 0]))):
        if dens:
            terms.append({'amp': d.draw(st.sampled_from(COUP)), 'pos': [d.draw(st.integers(0, N - 1))], 'ops': [d.draw(st.sampled_from(dens))]})
    for _ in range(d.draw(st.sampled_from([0, 1, 2, 1]))):
        if dens and N >= 2:
            i, j = d.draw(st.permutations(list(range(N))))[:2]
            terms.append({'amp': d.draw(st.sampled_from(COUP)), 'pos': [i, j], 'ops': [d.draw(st.sampled_from(dens)), d.draw(st.sampled_from(dens))]})
    if name == 'Spin12' and kw['sym'] in ('dense', 'Z2') and d.draw(st.booleans()):
        # transverse couplings allowed by the smaller symmetry: x_i x_j (Z2 even) and, for dense, a field x_i
        i, j = (d.draw(st.permutations(list(range(N))))[:2]) if N >= 2 else (0, 0)
        if N >= 2:
            terms.append({'amp': d.draw(st.sampled_from(COUP)), 'pos': [i, j], 'ops': ['x', 'x']})
        if kw['sym'] == 'dense':
            terms.append({'amp': d.draw(st.sampled_from(COUP)), 'pos': [d.draw(st.integers(0, N - 1))], 'ops': ['x']})
    if not terms:
        terms.append({'amp': 1.0, 'pos': [0], 'ops': ['I']})
    return terms


def build_mpo(terms, fam, N, extra=None):
    ops, sp, named = G.family(fam, **(extra or {}))
    I = mps.product_mpo(ops.I(), N=N)
    hts = [mps.Hterm(C.cplx(t['amp']), tuple(t['pos']), tuple(named[k] for k in t['ops'])) for t in terms]
    return mps.generate_mpo(I, hts)


def dense_h(terms, fam, N):
    ops, sp, named = G.family(fam)
    H = np.zeros((sp.d ** N, sp.d ** N), dtype=np.complex128)
    for t in terms:
        H = H + C.cplx(t['amp']) * JW.jw_product(sp, [named[k] for k in t['ops']], t['pos'], N)
    return H


def split_terms(terms, k):
    """Split a Hermitian term list into k Hermitian groups (adjoint pairs stay together)."""
    groups = [[] for _ in range(k)]
    i, g = 0, 0
    while i < len(terms):
        t = terms[i]
        if len(t['ops']) == 2 and i + 1 < len(terms) and terms[i + 1]['ops'] == t['ops'] and terms[i + 1]['pos'] == t['pos'][::-1] and t['ops'][0] != t['ops'][1]:
            groups[g % k] += [t, terms[i + 1]]
            i += 2
        else:
            groups[g % k].append(t)
            i += 1
        g += 1
    return [gr for gr in groups if gr]
