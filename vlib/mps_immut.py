"""C15 parts for MPS/MPO and PEPS-level objects.

Part 'mps_calls'  : a generated MPS/MPO (every operator family, central block or not) and a list of non-in-place methods / functions
                    (algebra, measurements, environments, observers, compression of a copy ...): a byte-level snapshot (to_dict(level=2) of every
                    site tensor + factor + pC) of every argument is compared before / after each call, also when the call raises.
Part 'containers' : copy() / clone() / shallow_copy() of MPS, MPO, Peps, Peps2Layers, Lattice, DoublePepsTensor, EnvCTM, EnvBP, EnvBoundaryMPS: the
                    source is modified through the documented in-place API (item assignment of a site, block assignment inside a site tensor,
                    methods ending in '_') and the copy must keep its value - and vice versa; for shallow copies only container-level
                    modifications are made.  PEPS measurements / to_tensor / transfer_mpo must leave the Peps unchanged.
"""
import numpy as np

from . import common as C
from . import mpsgen as G
from . import program as P
from .common import yastn, YastnError
from .runner import HypPart, Res, Violation, Reject
import yastn.tn.mps as mps
import yastn.tn.fpeps as fpeps


def snap_t(t):
    d = t.to_dict(level=2)
    return (C.dhash({k: v for k, v in d.items() if k not in ('data', 'config')}), np.asarray(d['data']).tobytes())


def snap_mps(psi):
    return (psi.N, psi.nr_phys, str(psi.pC), complex(np.asarray(psi.factor)), tuple(sorted((str(k), snap_t(v)) for k, v in psi.A.items())))


MPS_CALLS = ['norm', 'overlap_self', 'to_tensor', 'to_matrix', 'entropy', 'schmidt', 'bond_dims', 'add_self', 'mul', 'neg', 'conj', 'T', 'H', 'copy', 'clone',
             'shallow_copy', 'reverse_sites', 'measure_1site', 'measure_2site', 'mpo_at', 'env_measure', 'vdot', 'to_dict', 'save_to_dict', 'is_canonical',
             'get_legs', 'canonize_copy', 'truncate_copy', 'zipper', 'compression', 'sample', 'rdm', 'generate_mpo_template', 'on_bra', 'virtual_leg']


def mps_call(name, psi, other, op1, sp, named):
    """other: an object of the same kind (same physical legs); op1: an MPO on the same sites."""
    if name == 'norm':
        return psi.norm()
    if name == 'overlap_self':
        return mps.measure_overlap(psi, psi), mps.vdot(psi, other)
    if name == 'to_tensor':
        return psi.to_tensor() if psi.N <= 5 else None
    if name == 'to_matrix':
        return psi.to_matrix() if psi.N <= 4 else None
    if name == 'entropy':
        return psi.get_entropy() if psi.is_canonical(to='first') or psi.is_canonical(to='last') else None
    if name == 'schmidt':
        return psi.get_Schmidt_values() if psi.is_canonical(to='first') else None
    if name == 'bond_dims':
        return psi.get_bond_dimensions(), psi.get_bond_charges_dimensions(), psi.get_virtual_legs(), psi.get_physical_legs()
    if name == 'add_self':
        return psi + other, mps.add(psi, other, psi, amplitudes=[1, -2, 0.5])
    if name == 'mul':
        return 2 * psi, psi * (-0.5j), psi / 3 if hasattr(psi, '__truediv__') else None
    if name == 'neg':
        return -psi
    if name == 'conj':
        return psi.conj()
    if name == 'T':
        return psi.T if psi.nr_phys == 2 else None
    if name == 'H':
        return psi.H if psi.nr_phys == 2 else None
    if name in ('copy', 'clone', 'shallow_copy'):
        return getattr(psi, name)()
    if name == 'reverse_sites':
        return psi.reverse_sites()
    if name == 'measure_1site':
        return mps.measure_1site(psi, named['I'], psi) if psi.nr_phys == 1 and psi.pC is None else None
    if name == 'measure_2site':
        return mps.measure_2site(psi, named['I'], named['I'], psi, bonds='r1') if psi.nr_phys == 1 and psi.pC is None and psi.N > 1 else None
    if name == 'mpo_at':
        return (op1 @ psi, op1 @ op1) if psi.pC is None else None
    if name == 'env_measure':
        if psi.nr_phys == 1 and psi.pC is None:
            env = mps.Env(psi, [op1, psi]).setup_(to='first')
            return env.measure(), mps.measure_mpo(psi, op1, psi), mps.measure_mpo(psi, [op1, op1], psi)
        return None
    if name == 'vdot':
        return mps.vdot(psi, other) if psi.pC is None and other.pC is None else None
    if name == 'to_dict':
        return psi.to_dict(level=0), psi.to_dict(level=2)
    if name == 'save_to_dict':
        import warnings
        with warnings.catch_warnings():
            warnings.simplefilter('ignore')
            return psi.save_to_dict()
    if name == 'is_canonical':
        return psi.is_canonical(to='first'), psi.is_canonical(to='last')
    if name == 'get_legs':
        return [psi[n].get_legs() for n in psi.sweep(to='last')]
    if name == 'canonize_copy':
        phi = psi.shallow_copy()
        phi.canonize_(to='last', normalize=False)
        phi.canonize_(to='first')
        return phi
    if name == 'truncate_copy':
        phi = psi.shallow_copy()
        if phi.pC is None:
            phi.canonize_(to='last')
            phi.truncate_(to='first', opts_svd={'D_total': 2})
        return phi
    if name == 'zipper':
        return mps.zipper(op1, psi, opts_svd={'D_total': 4}) if psi.pC is None and psi.N > 1 else None
    if name == 'compression':
        if psi.pC is None and psi.nr_phys == 1 and psi.N > 1:
            phi = mps.zipper(op1, psi, opts_svd={'D_total': 4})
            return mps.compression_(phi, [op1, psi], method='1site', max_sweeps=1)
        return None
    if name == 'sample':
        return None
    if name == 'rdm':
        return mps.rdm(psi, 0) if psi.nr_phys == 1 and psi.pC is None and hasattr(mps, 'rdm') else None
    if name == 'generate_mpo_template':
        return None
    if name == 'on_bra':
        return psi.on_bra if hasattr(psi, 'on_bra') else None
    if name == 'virtual_leg':
        return psi.virtual_leg('first'), psi.virtual_leg('last')
    raise ValueError(name)


def draw_mps_calls(data, tier):
    from hypothesis import strategies as st
    fam = G.draw_family(data, tier)
    N = data.draw(st.sampled_from([3, 2, 4, 1, 5]))
    kind = data.draw(st.sampled_from(['mps', 'mps', 'mpo']))
    draw_obj = (lambda: G.draw_state_desc(data, fam, N, tier)) if kind == 'mps' else (lambda: G.draw_mpo_desc(data, fam, N, tier))
    return {'fam': fam, 'N': N, 'kind': kind, 'obj': draw_obj(), 'other': draw_obj(), 'mpo': G.draw_mpo_desc(data, fam, N, tier),
            'central': data.draw(st.sampled_from([None, None, 'first', 'last'])), 'csite': data.draw(st.integers(0, N - 1)),
            'calls': [data.draw(st.sampled_from(MPS_CALLS)) for _ in range(data.draw(st.integers(2, 8)))]}


def execute_mps_calls(desc):
    fam, N = desc['fam'], desc['N']
    ops, sp, named = G.family(fam)
    build = G.build_state if desc['kind'] == 'mps' else G.build_mpo
    try:
        psi, other, op1 = build(desc['obj'], fam, N), build(desc['other'], fam, N), G.build_mpo(desc['mpo'], fam, N)
    except YastnError as e:
        raise Reject('builder:' + str(e)[:40])
    if psi is None or other is None or op1 is None:
        raise Reject('zero_random_state')
    if desc['central'] is not None:
        psi = psi.shallow_copy()
        psi.orthogonalize_site_(desc['csite'], to=desc['central'], normalize=False)
    objs = {'psi': psi, 'other': other, 'mpo': op1}
    labels = ['kind:' + desc['kind'], 'central:' + str(psi.pC is not None)]
    shared = False
    for nm in desc['calls']:
        before = {k: snap_mps(v) for k, v in objs.items()}
        raised = None
        try:
            r = mps_call(nm, psi, other, op1, sp, named)
        except YastnError as e:
            raised, r = e, None
        after = {k: snap_mps(v) for k, v in objs.items()}
        for k in objs:
            if before[k] != after[k]:
                raise Violation(f'mps_operand_modified:{nm}', f"{nm}{'' if raised is None else ' (which raised ' + str(raised)[:60] + ')'} changed its argument '{k}'")
        labels.append('call:' + nm)
        for x in (r if isinstance(r, tuple) else (r,)):
            if isinstance(x, mps.MpsMpoOBC):
                shared = shared or any(np.shares_memory(np.asarray(a.data), np.asarray(b.data)) for a in x.A.values() for b in psi.A.values())
    return Res(labels=sorted(set(labels)), nontrivial=shared or len(desc['calls']) >= 3)


# ---- containers ----------------------------------------------------------------------------------------------------------------

KINDS = ['mps', 'mpo', 'Peps', 'Peps2Layers', 'Lattice', 'DoublePepsTensor', 'EnvCTM', 'EnvBP', 'EnvBoundaryMPS', 'Peps_observers']
HOWS = ['copy', 'clone', 'shallow_copy']


def draw_containers(data, tier):
    from hypothesis import strategies as st
    kind = data.draw(st.sampled_from(KINDS))
    d = {'kind': kind, 'how': data.draw(st.sampled_from(HOWS)), 'direction': data.draw(st.sampled_from(['source', 'copy'])),
         'mut': data.draw(st.sampled_from(['replace_site', 'block_assign', 'method_'])), 'seed': data.draw(st.integers(0, 999)), 'pick': data.draw(st.integers(0, 20))}
    if kind in ('mps', 'mpo'):
        fam = G.draw_family(data, tier)
        N = data.draw(st.sampled_from([3, 2, 4]))
        d.update({'fam': fam, 'N': N, 'obj': G.draw_state_desc(data, fam, N, tier) if kind == 'mps' else G.draw_mpo_desc(data, fam, N, tier),
                  'central': data.draw(st.sampled_from([None, 'first', 'last', None])), 'csite': data.draw(st.integers(0, N - 1))})
    else:
        d.update({'geom': data.draw(st.sampled_from([{'cls': 'square', 'dims': [2, 2], 'boundary': 'obc'}, {'cls': 'square', 'dims': [2, 2], 'boundary': 'infinite'},
                                                     {'cls': 'checker'}, {'cls': 'square', 'dims': [1, 3], 'boundary': 'obc'}, {'cls': 'square', 'dims': [2, 3], 'boundary': 'obc'}])),
                  'sym': data.draw(st.sampled_from(['U1', 'Z2', 'dense'])), 'fermionic': data.draw(st.booleans()), 'dtype': 'float64', 'D': data.draw(st.sampled_from([1, 2]))})
    return d


def tensors_of(obj):
    """All yastn tensors reachable from a container (name -> tensor)."""
    from dataclasses import is_dataclass, fields
    out = {}

    def walk(x, path):
        if x is None:
            return
        if isinstance(x, yastn.Tensor):
            out[path] = x
        elif isinstance(x, mps.MpsMpoOBC):
            for k, v in x.A.items():
                walk(v, f'{path}.A[{k}]')
        elif isinstance(x, fpeps.DoublePepsTensor):
            walk(x.ket, path + '.ket')
            walk(x.bra, path + '.bra')
            walk(x.op, path + '.op')
        elif isinstance(x, fpeps.Peps2Layers):
            walk(x.ket, path + '.ket')
            if x._bra is not None:
                walk(x._bra, path + '.bra')
        elif isinstance(x, fpeps.Lattice):        # Peps is a Lattice
            for k, v in x._site_data.items():
                walk(v, f'{path}[{k}]')
        elif isinstance(x, fpeps.EnvBoundaryMPS):
            walk(x.psi, path + '.psi')
            for k, v in x._env.items():
                walk(v, f'{path}.env[{k}]')
        elif hasattr(x, 'env') and hasattr(x, 'psi'):   # EnvCTM, EnvBP
            walk(x.psi, path + '.psi')
            walk(x.env, path + '.env')
            if hasattr(x, 'proj'):
                walk(x.proj, path + '.proj')
        elif is_dataclass(x):
            for f in fields(x):
                walk(getattr(x, f.name), f'{path}.{f.name}')
    walk(obj, 'obj')
    return out


def own_tensors(obj):
    """Tensors an object owns.  Environments document that copy()/clone() make the ENVIRONMENT tensors independent; the PEPS they were built
    for is shared by copy() (and by EnvBP.clone()), so it is not part of what a copy must protect."""
    ts = tensors_of(obj)
    if isinstance(obj, fpeps.EnvBoundaryMPS) or (hasattr(obj, 'env') and hasattr(obj, 'psi')):
        ts = {k: v for k, v in ts.items() if not k.startswith('obj.psi')}
    return ts


def value_of(obj):
    return {k: snap_t(v) for k, v in own_tensors(obj).items()}


def build_container(desc):
    from checks import c17_serialisation as c17
    kind = desc['kind']
    if kind in ('mps', 'mpo'):
        build = G.build_state if kind == 'mps' else G.build_mpo
        out = build(desc['obj'], desc['fam'], desc['N'])
        if out is None:
            raise Reject('zero_random_state')
        if desc.get('central') is not None:       # a central block is stored under a tuple key next to the site tensors
            out = out.shallow_copy()
            out.orthogonalize_site_(desc['csite'], to=desc['central'], normalize=False)
        return out
    pd = {'geom': desc['geom'], 'sym': desc['sym'], 'fermionic': desc['fermionic'], 'seed': desc['seed'], 'dtype': desc['dtype'], 'D': desc['D']}
    config, g, psi = c17.build_peps(pd)
    finite = desc['geom'].get('boundary') == 'obc'
    if kind in ('Peps', 'Peps_observers'):
        return psi
    if kind == 'Lattice':
        return fpeps.Lattice(g, objects={s: psi[s] for s in g.sites()})
    if kind == 'Peps2Layers':
        _, _, bra = c17.build_peps(pd, seed_shift=1)
        return fpeps.Peps2Layers(bra=bra, ket=psi)
    if kind == 'DoublePepsTensor':
        _, _, bra = c17.build_peps(pd, seed_shift=1)
        s0 = g.sites()[0]
        return fpeps.DoublePepsTensor(bra=bra[s0], ket=psi[s0])
    if kind == 'EnvCTM':
        return fpeps.EnvCTM(psi, init='rand' if desc['seed'] % 2 else 'eye')
    if kind == 'EnvBP':
        return fpeps.EnvBP(psi, init='eye')
    if kind == 'EnvBoundaryMPS':
        if not finite:
            raise Reject('boundary_mps_needs_finite_lattice')
        return fpeps.EnvBoundaryMPS(psi, opts_svd={'D_total': 4}, setup='lr')
    raise ValueError(kind)


def mutate_container(obj, desc, deep):
    """Modify obj in place through the documented API. Returns a description, or None when nothing applicable."""
    ts = own_tensors(obj)
    if not ts:
        return None
    names = sorted(ts)
    name = names[desc['pick'] % len(names)]
    mut = desc['mut']
    if mut == 'block_assign' and deep:
        t = ts[name]
        keys = list(t.get_blocks_charge())
        if not keys or tuple(t.trans) != tuple(range(t.ndim_n)):
            return None
        key = keys[desc['pick'] % len(keys)]
        t[key] = np.asarray(t[key]) * 0 + 7.0
        return f'block assignment inside {name}'
    if mut == 'method_':
        if isinstance(obj, mps.MpsMpoOBC):
            obj.canonize_(to='last', normalize=False)
            obj.factor = 3.0 * obj.factor
            return 'canonize_ + factor'
        if isinstance(obj, fpeps.EnvCTM):
            obj.reset_(init='eye')
            return 'reset_'
        if isinstance(obj, fpeps.DoublePepsTensor):
            obj.add_charge_swaps_(obj.config.sym.zero(), 'k1')
            obj.set_operator_(yastn.eye(obj.config, legs=[obj.ket.get_legs(4), obj.ket.get_legs(4).conj()], isdiag=False) * 2)
            return 'set_operator_'
        mut = 'replace_site'
    # container-level replacement of one stored tensor
    if isinstance(obj, mps.MpsMpoOBC):
        n = desc['pick'] % obj.N
        obj[n] = 2.0 * obj[n]
        return f'obj[{n}] = 2 * obj[{n}]'
    if isinstance(obj, fpeps.DoublePepsTensor):
        obj.ket = 2.0 * obj.ket
        return 'ket replaced'
    target = obj
    if isinstance(obj, fpeps.Peps2Layers):
        target = obj.ket
    elif isinstance(obj, fpeps.EnvBoundaryMPS):
        k = sorted(obj._env, key=str)[desc['pick'] % len(obj._env)]
        m = obj._env[k]
        m[0] = 2.0 * m[0]
        return f'env[{k}][0] replaced'
    elif hasattr(obj, 'env') and hasattr(obj, 'psi'):
        lat = obj.env
        s = lat.sites()[desc['pick'] % len(lat.sites())]
        loc = lat[s]
        from dataclasses import fields
        fs = [f.name for f in fields(loc) if getattr(loc, f.name) is not None]
        if not fs:
            return None
        f = fs[desc['pick'] % len(fs)]
        setattr(loc, f, 2.0 * getattr(loc, f))
        return f'env[{s}].{f} replaced'
    s = target.sites()[desc['pick'] % len(target.sites())]
    target[s] = 2.0 * target[s]
    return f'site {s} replaced'


def execute_containers(desc):
    try:
        src = build_container(desc)
    except YastnError as e:
        raise Reject('builder:' + str(e)[:40])
    kind, how = desc['kind'], desc['how']
    labels = ['kind:' + kind, 'how:' + how]
    if kind == 'Peps_observers':
        before = value_of(src)
        calls = []
        try:
            if desc['geom'].get('boundary') == 'obc':
                src.to_tensor()
                calls.append('to_tensor')
                env = fpeps.EnvBoundaryMPS(src, opts_svd={'D_total': 4}, setup='lrtb')
                I = yastn.eye(src.config, legs=[src[src.sites()[0]].get_legs(4), src[src.sites()[0]].get_legs(4).conj()], isdiag=False)
                env.measure_1site(I)
                env.measure_nn(I, I)
                calls.append('EnvBoundaryMPS.measure')
            src.transfer_mpo(n=0, dirn='v')
            src.get_bond_dimensions()
            env = fpeps.EnvCTM(src, init='eye')
            env.update_(opts_svd={'D_total': 4})
            env.measure_1site(yastn.eye(src.config, legs=[src[src.sites()[0]].get_legs(4), src[src.sites()[0]].get_legs(4).conj()], isdiag=False))
            calls.append('EnvCTM.update_/measure')
            env2 = fpeps.EnvNTU(src, which='NN')
            calls.append('EnvNTU')
        except YastnError as e:
            calls.append('raised')
        if value_of(src) != before:
            raise Violation('peps_operand_modified', f'one of {calls} modified the Peps it was given')
        return Res(labels=labels + ['call:' + c for c in calls], nontrivial=True)
    if not hasattr(src, how):
        raise Reject(f'no_{how}')
    try:
        cp = getattr(src, how)()
    except YastnError as e:
        raise Violation(f'container:{how}:raises:{kind}', str(e))
    deep = how in ('copy', 'clone')
    if not deep and kind in ('EnvCTM', 'EnvBP', 'EnvBoundaryMPS', 'DoublePepsTensor'):
        raise Reject('shallow_copy_of_env_shares_site_records_by_design')
    if type(cp) is not type(src):
        raise Violation(f'container:{how}:type:{kind}', f'{how}() of {type(src).__name__} returned {type(cp).__name__}')
    if value_of(cp) != value_of(src) and deep:
        a, b = value_of(src), value_of(cp)
        if sorted(a) != sorted(b) or any(a[k] != b[k] for k in a):
            raise Violation(f'container:{how}:differs:{kind}', f'{how}() does not reproduce the tensors of the source')
    first, second = (src, cp) if desc['direction'] == 'source' else (cp, src)
    before = value_of(second)
    try:
        what = mutate_container(first, desc, deep)
    except YastnError as e:
        raise Reject('mutation_raises:' + str(e)[:40])
    if what is None:
        raise Reject('no_applicable_mutation')
    after = value_of(second)
    if before != after:
        changed = [k for k in before if before[k] != after.get(k)] + [k for k in after if k not in before]
        raise Violation(f'container:{how}:not_independent:{kind}', f'{what} on the {desc["direction"]} changed {changed[:3]} of the other object ({how}() of {type(src).__name__})')
    return Res(labels=labels + ['mutation:' + what.split(' ')[0], 'direction:' + desc['direction']], nontrivial=True)


def parts(tier):
    return [HypPart('mps_calls', draw_mps_calls, execute_mps_calls, {'quick': 600, 'thorough': 12000}),
            HypPart('containers', draw_containers, execute_containers, {'quick': 600, 'thorough': 12000})]
