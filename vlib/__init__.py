"""Shared machinery for the yastn property checks (see /verif/DESIGN.md section 1)."""
