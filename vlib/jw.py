"""Dense Jordan-Wigner reference in the plain Kronecker (site-product) basis.

Local matrices come from the operators' own to_numpy (embedded into the full local space); everything else -- strings,
orderings, products, expectation values -- is NumPy, independent of yastn's swap logic.
Convention (standard): O at position p is  (prod_{q before p} P_q^[O]) (x) O_p (x) 1...,  P^[O] = diag((-1)^(pi(t_q).pi(n_O))),
with pi restricted to the charge components flagged fermionic and "before" meaning earlier in the fermionic order.
A product O_1 O_2 ... O_k of operators (rightmost applied first) is the matrix product of their JW images.
"""
import itertools

import numpy as np

from .common import yastn, parity


class LocalSpace:
    """Local Hilbert space of an operator class instance (ops.space())."""

    def __init__(self, ops):
        self.ops = ops
        self.config = ops.config
        self.sym = ops.config.sym.SYM_ID
        self.ferm = ops.config.fermionic
        self.leg = ops.space()
        self.d = sum(self.leg.D)
        # charge of every basis state in to_numpy order (sectors sorted by charge)
        self.charges = []
        for t, D in zip(self.leg.t, self.leg.D):
            self.charges.extend([t] * D)

    def dense(self, op):
        """d x d matrix of a local operator (legs: out, in)."""
        return op.to_numpy(legs={0: self.leg, 1: self.leg.conj()})

    def vec(self, v):
        return v.to_numpy(legs={0: self.leg})

    def par(self, t):
        return np.array(parity(self.sym, t, self.ferm), dtype=np.int64)

    def string(self, n_op):
        """Diagonal of P^[O] for an operator of charge n_op."""
        pn = self.par(n_op)
        return np.array([(-1) ** int(np.dot(self.par(t), pn) % 2) for t in self.charges], dtype=np.float64)

    def is_odd(self, n_op):
        return bool(np.any(self.par(n_op) % 2))


def kron_all(mats):
    out = np.ones((1, 1))
    for m in mats:
        out = np.kron(out, m)
    return out


def jw_single(space, op, pos, N, rank=None):
    """JW image of a single local operator `op` (yastn tensor) at chain position pos (0..N-1).
    rank: list mapping position -> place in the fermionic order (default identity)."""
    O = space.dense(op)
    P = np.diag(space.string(op.n))
    rank = list(range(N)) if rank is None else rank
    mats = []
    for q in range(N):
        if q == pos:
            mats.append(O)
        elif rank[q] < rank[pos]:
            mats.append(P)
        else:
            mats.append(np.eye(space.d))
    return kron_all(mats)


def jw_product(space, ops, positions, N, rank=None):
    """Matrix of O_1(p_1) O_2(p_2) ... O_k(p_k) (rightmost applied first)."""
    out = np.eye(space.d ** N)
    for op, p in zip(ops, positions):
        out = out @ jw_single(space, op, p, N, rank)
    return out


def tensor_to_matrix(T, space, N):
    """yastn tensor with legs (o0, i0, o1, i1, ...) -> dense (d^N, d^N) matrix in the Kronecker basis."""
    legs = {}
    for k in range(N):
        legs[2 * k] = space.leg
        legs[2 * k + 1] = space.leg.conj()
    A = T.to_numpy(legs=legs)
    A = A.transpose(list(range(0, 2 * N, 2)) + list(range(1, 2 * N, 2)))
    return A.reshape(space.d ** N, space.d ** N)


def vector_from_tensor(T, space, N, extra_axes=()):
    legs = {k: space.leg for k in range(N)}
    return T.to_numpy(legs=legs).reshape(-1)


# ------------------------------------------------------------------------------------------------
# operator families
# ------------------------------------------------------------------------------------------------

def operator_families():
    """(name, constructor kwargs) for every predefined family x symmetry."""
    fam = []
    for sym in ('dense', 'Z2', 'U1'):
        fam.append(('Spin12', {'sym': sym}))
    for sym in ('dense', 'Z3', 'U1'):
        fam.append(('Spin1', {'sym': sym}))
    for sym in ('Z2', 'U1'):
        fam.append(('SpinlessFermions', {'sym': sym}))
    for sym in ('Z2', 'U1', 'U1xU1', 'U1xU1xZ2'):
        fam.append(('SpinfulFermions', {'sym': sym}))
    for sym in ('Z2', 'U1', 'U1xU1', 'U1xU1xZ2'):
        fam.append(('SpinfulFermions_tJ', {'sym': sym}))
    return fam


def make_ops(name, kwargs, **extra):
    cls = getattr(yastn.operators, name)
    return cls(**kwargs, **extra)


def named_operators(name, ops):
    """Dictionary of the local operators of a family: {label: tensor}."""
    out = {'I': ops.I()}
    if name == 'Spin12':
        out.update({'z': ops.z(), 'sz': ops.sz(), 'sp': ops.sp(), 'sm': ops.sm()})
        if ops.config.sym.SYM_ID in ('dense', 'Z2'):
            out.update({'x': ops.x(), 'sx': ops.sx()})
        if ops.config.sym.SYM_ID == 'dense':
            out.update({'y': ops.y(), 'iy': ops.iy(), 'sy': ops.sy(), 'isy': ops.isy()})
    elif name == 'Spin1':
        out.update({'sz': ops.sz(), 'sp': ops.sp(), 'sm': ops.sm()})
        if ops.config.sym.SYM_ID == 'dense':
            out.update({'sx': ops.sx(), 'sy': ops.sy(), 'isy': ops.isy()})
    elif name == 'SpinlessFermions':
        out.update({'n': ops.n(), 'c': ops.c(), 'cp': ops.cp()})
    elif name in ('SpinfulFermions', 'SpinfulFermions_tJ'):
        for sp in 'ud':
            out.update({'n' + sp: ops.n(sp), 'c' + sp: ops.c(sp), 'cp' + sp: ops.cp(sp)})
        if name == 'SpinfulFermions_tJ':
            out.update({'Sz': ops.Sz(), 'Sp': ops.Sp(), 'Sm': ops.Sm(), 'h': ops.h()})
    return out
