"""Generators and dense observers for MPS / MPO (C06-C10, parts of C15, C17).

mps_dense / mpo_dense contract the site tensors in NumPy (bond spaces unified through legs_union, physical legs embedded in
the family's full local space), include the central block and the norm factor, and return arrays in the plain Kronecker basis
(site 0 most significant; each site's basis ordered by increasing charge as to_numpy orders a leg).
"""
import itertools

import numpy as np

from . import common as C
from . import jw as JW
from .common import yastn, YastnError, gsum
import yastn.tn.mps as mps

FAMILIES = [('Spin12', {'sym': 'dense'}), ('Spin12', {'sym': 'Z2'}), ('Spin12', {'sym': 'U1'}),
            ('Spin1', {'sym': 'dense'}), ('Spin1', {'sym': 'Z3'}), ('Spin1', {'sym': 'U1'}),
            ('SpinlessFermions', {'sym': 'Z2'}), ('SpinlessFermions', {'sym': 'U1'}),
            ('SpinfulFermions', {'sym': 'Z2'}), ('SpinfulFermions', {'sym': 'U1'}), ('SpinfulFermions', {'sym': 'U1xU1'}),
            ('SpinfulFermions', {'sym': 'U1xU1xZ2'}),
            ('SpinfulFermions_tJ', {'sym': 'Z2'}), ('SpinfulFermions_tJ', {'sym': 'U1'}), ('SpinfulFermions_tJ', {'sym': 'U1xU1xZ2'}),
            ('Qdit', {'sym': 'dense', 'd': 2}), ('Qdit', {'sym': 'dense', 'd': 3})]

_CACHE = {}


def family(idx, **extra):
    """(ops, LocalSpace, named operators) for FAMILIES[idx]; extra config kwargs (tensordot_policy, default_fusion...)."""
    key = (idx, tuple(sorted(extra.items())))
    if key not in _CACHE:
        name, kw = FAMILIES[idx]
        ops = getattr(yastn.operators, name)(**kw, **extra)
        sp = JW.LocalSpace(ops)
        named = JW.named_operators(name, ops) if name != 'Qdit' else {'I': ops.I()}
        _CACHE[key] = (ops, sp, named)
    return _CACHE[key]


def admissible_charges(sp, N):
    """All total charges reachable by N sites of the local space (group sums of one local charge per site)."""
    sym = sp.sym
    cur = {tuple(0 for _ in C.MODULI[sym])}
    for _ in range(N):
        cur = {gsum(sym, [a, t], [1, 1]) for a in cur for t in sp.leg.t}
    return sorted(cur)


def sector_dim(sp, N, n):
    """Dimension of the charge-n sector of N sites."""
    cnt = {tuple(0 for _ in C.MODULI[sp.sym]): 1}
    for _ in range(N):
        new = {}
        for a, c in cnt.items():
            for t, D in zip(sp.leg.t, sp.leg.D):
                k = gsum(sp.sym, [a, t], [1, 1])
                new[k] = new.get(k, 0) + c * D
        cnt = new
    return cnt.get(tuple(n), 0)


def sector_mask(sp, N, n):
    """Boolean vector over the Kronecker basis selecting states of total charge n."""
    ch = sp.charges
    out = np.zeros(sp.d ** N, dtype=bool)
    for idx, combo in enumerate(itertools.product(range(sp.d), repeat=N)):
        if gsum(sp.sym, [ch[i] for i in combo], [1] * N) == tuple(n):
            out[idx] = True
    return out


# ------------------------------------------------------------------------------------------------------------------
# dense observers
# ------------------------------------------------------------------------------------------------------------------

def _bond_legs(psi):
    """Bond legs (signature as seen from the tensor on the left). Returns (right_of_site, left_of_site): with a central block
    on a bond the space to the left of the block differs from the space to its right."""
    N = psi.N
    right_of, left_of = [None] * (N + 1), [None] * (N + 1)      # index b: bond between sites b-1 and b
    for b in range(N + 1):
        has_c = psi.pC is not None and psi.pC == (b - 1, b)
        cl, cr = [], []
        if b > 0:
            cl.append(psi.A[b - 1].get_legs(2))
        if b < N:
            cr.append(psi.A[b].get_legs(0).conj())
        if has_c:
            cl.append(psi.A[psi.pC].get_legs(0).conj())
            cr.append(psi.A[psi.pC].get_legs(1))
            right_of[b] = yastn.legs_union(*cl) if len(cl) > 1 else cl[0]
            left_of[b] = yastn.legs_union(*cr) if len(cr) > 1 else cr[0]
        else:
            u = cl + cr
            right_of[b] = left_of[b] = yastn.legs_union(*u) if len(u) > 1 else u[0]
    return right_of, left_of


def _chain(out, A, nr_phys):
    """Append site array A (l, p, r[, b]) to the running array whose LAST axis is the open right virtual leg."""
    if nr_phys == 2:
        A = A.transpose(0, 1, 3, 2)     # (l, k, b, r)
    if out is None:
        return A
    return np.tensordot(out, A, axes=(out.ndim - 1, 0))


def mps_dense(psi, sp):
    out = None
    N = psi.N
    ro, lo = _bond_legs(psi)
    for n in range(N):
        lg = {0: lo[n].conj(), 1: sp.leg if psi.A[n].get_legs(1).s == 1 else sp.leg.conj(), 2: ro[n + 1]}
        if psi.nr_phys == 2:
            lg[3] = sp.leg.conj() if psi.A[n].get_legs(3).s == -1 else sp.leg
        A = psi.A[n].to_numpy(legs=lg)
        if psi.pC is not None and psi.pC == (n - 1, n):
            Cm = psi.A[psi.pC].to_numpy(legs={0: ro[n].conj(), 1: lo[n]})
            A = np.tensordot(Cm, A, axes=(1, 0))
        out = _chain(out, A, psi.nr_phys)
    if psi.pC is not None and psi.pC == (N - 1, N):     # central block beyond the last site
        Cm = psi.A[psi.pC].to_numpy(legs={0: ro[N].conj(), 1: lo[N]})
        out = np.tensordot(out, Cm, axes=(out.ndim - 1, 0))
    if out.size == 0:      # some site tensor has no block at all: the zero state / operator
        return np.zeros(sp.d ** N if psi.nr_phys == 1 else (sp.d ** N, sp.d ** N), dtype=out.dtype)
    if out.shape[0] != 1 or out.shape[-1] != 1:
        raise ValueError(f'outer virtual legs have dimension {(out.shape[0], out.shape[-1])}')
    out = out.reshape(out.shape[1:-1])
    if psi.nr_phys == 1:
        return psi.factor * out.reshape(-1)
    out = out.transpose(list(range(0, 2 * N, 2)) + list(range(1, 2 * N, 2)))
    D = sp.d ** N
    return psi.factor * out.reshape(D, D)


def dense(psi, sp):
    return mps_dense(psi, sp)


def mpo_pbc_dense(op, sp):
    """Dense matrix of a periodic MPO (trace over the virtual loop)."""
    N = op.N
    bl = []
    for b in range(N):
        bl.append(yastn.legs_union(op.A[(b - 1) % N].get_legs(2), op.A[b].get_legs(0).conj()))
    out = None
    for n in range(N):
        A = op.A[n].to_numpy(legs={0: bl[n].conj(), 1: sp.leg, 2: bl[(n + 1) % N], 3: sp.leg.conj()})
        out = _chain(out, A, 2)
    out = np.trace(out, axis1=0, axis2=out.ndim - 1)
    out = out.transpose(list(range(0, 2 * N, 2)) + list(range(1, 2 * N, 2)))
    D = sp.d ** N
    return op.factor * out.reshape(D, D)


# ------------------------------------------------------------------------------------------------------------------
# state / operator generation (descriptors)
# ------------------------------------------------------------------------------------------------------------------

def draw_family(d, tier, names=None, fermionic_only=False):
    from hypothesis import strategies as st
    idx = [i for i, (nm, kw) in enumerate(FAMILIES) if (names is None or nm in names)
           and (not fermionic_only or nm.startswith('Spin') and 'Fermions' in nm)]
    return d.draw(st.sampled_from(idx), label='family')


def draw_state_desc(d, fam, N, tier, kinds=('random', 'random', 'product', 'from_tensor', 'product_cyclic'), n=None):
    from hypothesis import strategies as st
    ops, sp, named = family(fam)
    kind = d.draw(st.sampled_from(list(kinds)))
    if kind == 'product_cyclic' and N < 3:
        kind = 'product'
    adm = admissible_charges(sp, N)
    if kind == 'product_cyclic':
        # product_mps(vectors, N=N) with fewer vectors than sites: the list is repeated cyclically from the first site
        k = d.draw(st.sampled_from([2, 3] if N > 3 else [2]))
        tot = lambda occ: list(gsum(sp.sym, [sp.charges[occ[j % k]] for j in range(N)], [1] * N))
        if n is None:
            occ = [d.draw(st.integers(0, sp.d - 1)) for _ in range(k)]
            n = tot(occ)
        else:       # a prescribed total charge: choose among the short lists that reach it
            cands = [list(o) for o in itertools.product(range(sp.d), repeat=k) if tot(o) == list(n)]
            occ = list(d.draw(st.sampled_from(cands))) if cands else None
        if occ is not None:
            return {'kind': kind, 'n': list(n), 'seed': 0, 'dtype': d.draw(st.sampled_from(['float64', 'complex128'])), 'occ': occ,
                    'factor': d.draw(st.sampled_from([1, 1, 0.5, 3]))}
        kind = 'product'
    if n is None:
        n = list(d.draw(st.sampled_from(adm)))
    desc = {'kind': kind, 'n': list(n), 'seed': d.draw(st.integers(0, 2 ** 16)),
            'dtype': d.draw(st.sampled_from(['float64', 'complex128', 'float64']))}
    if kind == 'random':
        desc['D'] = d.draw(st.sampled_from([2, 3, 4, 6, 8, 1, 5]))
    elif kind == 'product':
        # one basis state per site whose charges add up to n (constructed, not filtered)
        desc['occ'] = _draw_occupation(d, sp, N, tuple(n))
    elif kind == 'from_tensor':
        desc['canonize'] = d.draw(st.sampled_from(['last', 'first', 'balance']))
    desc['factor'] = d.draw(st.sampled_from([1, 1, 0.5, 3, 2.5]))
    return desc


def _draw_occupation(d, sp, N, n):
    """Basis-state indices per site with total charge n, drawn site by site among the choices that can still reach n."""
    from hypothesis import strategies as st
    sym = sp.sym
    reach = [None] * (N + 1)
    reach[N] = {tuple(0 for _ in C.MODULI[sym])}
    for k in range(N - 1, -1, -1):
        reach[k] = {gsum(sym, [a, t], [1, 1]) for a in reach[k + 1] for t in sp.leg.t}
    occ = []
    rest = tuple(n)
    for k in range(N):
        opts = [i for i, t in enumerate(sp.charges) if gsum(sym, [rest, t], [1, -1]) in reach[k + 1]]
        i = d.draw(st.sampled_from(opts))
        occ.append(i)
        rest = gsum(sym, [rest, sp.charges[i]], [1, -1])
    return occ


def basis_vector(sp, i):
    """Local basis state i (in to_numpy order) as a yastn rank-1 tensor."""
    t = sp.charges[i]
    pos = i - sum(D for tt, D in zip(sp.leg.t, sp.leg.D) if tt < t)
    v = yastn.Tensor(config=sp.config, s=(1,), n=t)
    D = sp.leg[t] if len(sp.leg.t) and sp.sym != 'dense' else sp.d
    val = np.zeros(D)
    val[pos] = 1
    v.set_block(ts=t, Ds=(D,), val=val)
    return v


def build_state(desc, fam, N, extra=None):
    ops, sp, named = family(fam, **(extra or {}))
    I = mps.product_mpo(ops.I(), N=N)
    C.reseed_backend(desc['seed'])
    kind = desc['kind']
    if kind == 'random':
        try:
            psi = mps.random_mps(I, n=tuple(desc['n']), D_total=desc['D'], dtype=desc['dtype'])
        except YastnError as e:
            if 'zero state' in str(e) or 'not consistent' in str(e):
                return None
            raise
    elif kind in ('product', 'product_cyclic'):
        vecs = [basis_vector(sp, i) for i in desc['occ']]
        psi = mps.product_mps(vecs) if kind == 'product' else mps.product_mps(vecs, N=N)
        if desc['dtype'] == 'complex128':
            psi = (1j) * psi
    else:
        legs = [sp.leg] * N
        ten = yastn.rand(sp.config, legs=legs, n=tuple(desc['n']), dtype=desc['dtype'])
        if len(ten.get_blocks_charge()) == 0:
            return None
        psi = mps.mps_from_tensor(ten, canonize=desc.get('canonize', 'last'))
    f = desc.get('factor', 1)
    if f != 1:
        psi = f * psi
    return psi


def draw_mpo_desc(d, fam, N, tier):
    from hypothesis import strategies as st
    ops, sp, named = family(fam)
    kind = d.draw(st.sampled_from(['random', 'product', 'random', 'from_tensor'] if N <= 3 else ['random', 'product', 'random']))
    desc = {'kind': kind, 'seed': d.draw(st.integers(0, 2 ** 16)), 'dtype': d.draw(st.sampled_from(['float64', 'complex128', 'float64'])),
            'factor': d.draw(st.sampled_from([1, 1, 2, 0.5]))}
    if kind == 'random':
        desc['D'] = d.draw(st.sampled_from([2, 3, 4, 1, 5]))
    elif kind == 'product':
        neutral = sorted(k for k, v in named.items() if not any(v.n))
        desc['ops'] = [d.draw(st.sampled_from(neutral)) for _ in range(N)]
    return desc


def build_mpo(desc, fam, N, extra=None):
    ops, sp, named = family(fam, **(extra or {}))
    I = mps.product_mpo(ops.I(), N=N)
    C.reseed_backend(desc['seed'])
    kind = desc['kind']
    if kind == 'random':
        op = mps.random_mpo(I, D_total=desc['D'], dtype=desc['dtype'])
    elif kind == 'product':
        op = mps.product_mpo([named[k] for k in desc['ops']])
    else:
        legs = []
        for _ in range(N):
            legs += [sp.leg, sp.leg.conj()]
        ten = yastn.rand(sp.config, legs=legs, dtype=desc['dtype'])
        op = mps.mpo_from_tensor(ten)
    f = desc.get('factor', 1)
    if f != 1:
        op = f * op
    return op
