"""Pure-Python/NumPy reference model of a symmetric tensor and of the tensor algebra.

A model tensor (MT) is a dense array ``E`` over *elementary* legs (each with a signature and a wide sector table
{charge: dimension}, sectors laid out in increasing charge order) plus a forest ``tree`` that records how the
elementary legs are grouped into logical legs by hard ('h') or meta ('m') fusion. The model never looks at yastn's
internal layout of a fused index: yastn results are observed after complete unfusion and embedded into the wide
tables (see observe()). The group law is vlib.common.gsum.
"""
import itertools

import numpy as np

from .common import gsum, gneg, parity


class ELeg:
    __slots__ = ('s', 'tD')

    def __init__(self, s, tD):
        self.s = int(s)
        self.tD = dict(sorted((tuple(t), int(D)) for t, D in tD.items()))

    def conj(self):
        return ELeg(-self.s, self.tD)

    @property
    def dim(self):
        return sum(self.tD.values())

    def offsets(self):
        out, lo = {}, 0
        for t, D in self.tD.items():
            out[t] = (lo, lo + D)
            lo += D
        return out

    def compatible(self, other):
        return all(other.tD[t] == D for t, D in self.tD.items() if t in other.tD)

    def union(self, other):
        tD = dict(self.tD)
        tD.update(other.tD)
        return ELeg(self.s, tD)

    def to_json(self):
        return {'s': self.s, 't': [list(t) for t in self.tD], 'D': list(self.tD.values())}

    def __repr__(self):
        return f'ELeg(s={self.s}, {self.tD})'


def leaves(node):
    if isinstance(node, int):
        return [node]
    out = []
    for ch in node[1]:
        out.extend(leaves(ch))
    return out


def renumber(node, mapping):
    if isinstance(node, int):
        return mapping[node]
    return (node[0], [renumber(ch, mapping) for ch in node[1]])


def shape_of(node):
    """Tree shape with modes, without leaf numbers (for compatibility tests)."""
    if isinstance(node, int):
        return 'o'
    return (node[0], tuple(shape_of(ch) for ch in node[1]))


def history(node):
    if isinstance(node, int):
        return 'o'
    return ('p' if node[0] == 'h' else node[0]) + '(' + ''.join(history(ch) for ch in node[1]) + ')'


def to_hard(node):
    if isinstance(node, int):
        return node
    return ('h', [to_hard(ch) for ch in node[1]])


def has_mode(node, mode):
    if isinstance(node, int):
        return False
    return node[0] == mode or any(has_mode(ch, mode) for ch in node[1])


def depth(node):
    if isinstance(node, int):
        return 0
    return 1 + max(depth(ch) for ch in node[1])


def embed_axis(E, axis, src, dst):
    """Embed E (laid out along `axis` per sector table src) into the wider table dst (zeros elsewhere)."""
    if src.tD == dst.tD:
        return E
    so, do = src.offsets(), dst.offsets()
    shape = list(E.shape)
    shape[axis] = dst.dim
    out = np.zeros(shape, dtype=E.dtype)
    for t, (lo, hi) in so.items():
        dlo, dhi = do[t]
        assert dhi - dlo == hi - lo
        sl_o = [slice(None)] * E.ndim
        sl_i = [slice(None)] * E.ndim
        sl_o[axis] = slice(dlo, dhi)
        sl_i[axis] = slice(lo, hi)
        out[tuple(sl_o)] = E[tuple(sl_i)]
    return out


def restrict_axis(E, axis, src, dst):
    """Inverse of embed: keep only the sectors of dst (a sub-table of src)."""
    if src.tD == dst.tD:
        return E
    so = src.offsets()
    idx = []
    for t in dst.tD:
        lo, hi = so[t]
        idx.extend(range(lo, hi))
    return np.take(E, idx, axis=axis)


class MT:
    """Model tensor."""

    def __init__(self, sym, ferm, legs, tree, n, E=None, isdiag=False, cplx=False):
        self.sym, self.ferm = sym, ferm
        self.legs = list(legs)
        self.tree = list(tree)
        self.n = tuple(n)
        self.E = E
        self.isdiag = isdiag
        self.cplx = cplx

    # ---- structure ---------------------------------------------------------------------------
    @property
    def ndim(self):
        return len(self.tree)

    @property
    def nleaves(self):
        return len(self.legs)

    def copy(self):
        return MT(self.sym, self.ferm, self.legs, [_cp(n) for n in self.tree], self.n,
                  None if self.E is None else self.E.copy(), self.isdiag, self.cplx)

    def lsig(self, i):
        """Signature of logical leg i (first leaf)."""
        return self.legs[leaves(self.tree[i])[0]].s

    def is_leaf(self, i):
        return isinstance(self.tree[i], int)

    def any_hard(self):
        return any(has_mode(n, 'h') for n in self.tree)

    def any_meta(self):
        return any(has_mode(n, 'm') for n in self.tree)

    def any_fused(self):
        return any(not isinstance(n, int) for n in self.tree)

    def shape(self):
        return tuple(l.dim for l in self.legs)

    def check(self):
        lv = [x for n in self.tree for x in leaves(n)]
        assert lv == list(range(len(self.legs))), (lv, len(self.legs))
        if self.E is not None:
            assert self.E.shape == self.shape(), (self.E.shape, self.shape())

    # ---- helpers -----------------------------------------------------------------------------
    def _permute_logical(self, axes):
        perm = [x for i in axes for x in leaves(self.tree[i])]
        mapping = {old: new for new, old in enumerate(perm)}
        tree = [renumber(self.tree[i], mapping) for i in axes]
        legs = [self.legs[p] for p in perm]
        E = None if self.E is None else np.transpose(self.E, perm)
        return MT(self.sym, self.ferm, legs, tree, self.n, E, self.isdiag, self.cplx)

    def with_E(self, E, cplx=None):
        return MT(self.sym, self.ferm, self.legs, self.tree, self.n, E, self.isdiag, self.cplx if cplx is None else cplx)

    # ---- unary ops ---------------------------------------------------------------------------
    def transpose(self, axes):
        return self._permute_logical(list(axes))

    def conj(self):
        return MT(self.sym, self.ferm, [l.conj() for l in self.legs], self.tree, gneg(self.sym, self.n),
                  None if self.E is None else np.conj(self.E), self.isdiag, self.cplx)

    def conj_blocks(self):
        return self.with_E(None if self.E is None else np.conj(self.E))

    def flip_signature(self):
        return MT(self.sym, self.ferm, [l.conj() for l in self.legs], self.tree, gneg(self.sym, self.n),
                  self.E, self.isdiag, self.cplx)

    def fuse(self, axes, mode):
        """axes: nested list of logical indices (groups are lists); mode 'hard' | 'meta' (already resolved)."""
        groups = [list(g) if isinstance(g, (list, tuple)) else [g] for g in axes]
        order = [i for g in groups for i in g]
        t = self._permute_logical(order)
        tree, pos = [], 0
        for g in groups:
            nodes = t.tree[pos:pos + len(g)]
            pos += len(g)
            tree.append(nodes[0] if len(g) == 1 else ('h' if mode == 'hard' else 'm', nodes))
        if mode == 'hard':
            tree = [to_hard(n) for n in tree]
        t.tree = tree
        return t

    def meta_to_hard(self):
        t = self.copy()
        t.tree = [to_hard(n) for n in t.tree]
        return t

    def unfuse(self, axes):
        tree = []
        for i, n in enumerate(self.tree):
            if i in axes and not isinstance(n, int):
                tree.extend(n[1])
            else:
                tree.append(n)
        t = self.copy()
        t.tree = tree
        return t

    def add_leg(self, axis, s, t):
        axis = axis % (self.ndim + 1)
        if t is None:
            t = gsum(self.sym, [self.n], [-1], s)
        t = gsum(self.sym, [t], [1])  # canonical
        pos = sum(len(leaves(n)) for n in self.tree[:axis])
        legs = self.legs[:pos] + [ELeg(s, {t: 1})] + self.legs[pos:]
        mapping = {i: (i if i < pos else i + 1) for i in range(len(self.legs))}
        tree = [renumber(n, mapping) for n in self.tree]
        tree.insert(axis, pos)
        E = None if self.E is None else np.expand_dims(self.E, pos)
        return MT(self.sym, self.ferm, legs, tree, gsum(self.sym, [self.n, t], [1, s]), E, False, self.cplx)

    def can_remove_leg(self, axis):
        return self.ndim > 0 and not self.isdiag and all(self.legs[x].dim == 1 for x in leaves(self.tree[axis % self.ndim]))

    def remove_leg(self, axis):
        axis = axis % self.ndim
        lv = leaves(self.tree[axis])
        charges = [next(iter(self.legs[x].tD)) for x in lv]
        sigs = [self.legs[x].s for x in lv]
        n = gsum(self.sym, [self.n] + charges, [1] + [-s for s in sigs])
        keep = [i for i in range(len(self.legs)) if i not in lv]
        mapping = {old: new for new, old in enumerate(keep)}
        tree = [renumber(nn, mapping) for i, nn in enumerate(self.tree) if i != axis]
        E = None if self.E is None else self.E.reshape([self.legs[i].dim for i in keep])
        return MT(self.sym, self.ferm, [self.legs[i] for i in keep], tree, n, E, False, self.cplx)

    def flip_leaves(self, lv):
        """Flip signature and charges of the given elementary legs (dense index is re-sorted)."""
        legs = list(self.legs)
        E = self.E
        for x in lv:
            old = self.legs[x]
            new = ELeg(-old.s, {gneg(self.sym, t): D for t, D in old.tD.items()})
            if E is not None:
                oo = old.offsets()
                idx = []
                for t in new.tD:
                    lo, hi = oo[gneg(self.sym, t)]
                    idx.extend(range(lo, hi))
                E = np.take(E, idx, axis=x)
            legs[x] = new
        return MT(self.sym, self.ferm, legs, self.tree, self.n, E, self.isdiag, self.cplx)

    def diag(self):
        """non-diagonal -> diagonal (keeps only the diagonal) or diagonal -> non-diagonal (same values)."""
        if self.isdiag:
            t = self.copy()
            t.isdiag = False
            return t
        u = self.legs[0].tD.keys() & self.legs[1].tD.keys()
        l0 = ELeg(self.legs[0].s, {t: self.legs[0].tD[t] for t in u})
        l1 = ELeg(self.legs[1].s, {t: self.legs[1].tD[t] for t in u})
        E = None
        if self.E is not None:
            E = restrict_axis(restrict_axis(self.E, 0, self.legs[0], l0), 1, self.legs[1], l1)
            E = np.diag(np.diag(E)) if E.size else E
        return MT(self.sym, self.ferm, [l0, l1], [0, 1], self.n, E, True, self.cplx)

    # ---- binary ops --------------------------------------------------------------------------
    def compatible_legs(self, i, other, j, sgn):
        """Logical leg i of self vs logical leg j of other: same tree shape, leaf signatures s_a == sgn * s_b,
        equal dimensions on common charges."""
        a, b = self.tree[i], other.tree[j]
        if shape_of(a) != shape_of(b):
            return False
        for x, y in zip(leaves(a), leaves(b)):
            la, lb = self.legs[x], other.legs[y]
            if la.s != sgn * lb.s or not la.compatible(lb):
                return False
        return True

    def _unify(self, other, pairs, sgn):
        """Embed both arrays so that the paired leaves share a sector table. pairs: [(leaf_a, leaf_b)].
        For sgn=-1 (contraction) the shared table of b is the conjugate of a's."""
        Ea, Eb = self.E, other.E
        la, lb = list(self.legs), list(other.legs)
        for x, y in pairs:
            u = la[x].union(ELeg(la[x].s, lb[y].tD))
            ub = ELeg(lb[y].s, u.tD)
            if Ea is not None:
                Ea = embed_axis(Ea, x, la[x], u)
            if Eb is not None:
                Eb = embed_axis(Eb, y, lb[y], ub)
            la[x], lb[y] = u, ub
        return Ea, Eb, la, lb

    def add(self, other, sign=1):
        pairs = [(x, x) for x in range(len(self.legs))]
        Ea, Eb, la, _ = self._unify(other, pairs, 1)
        E = None if Ea is None else Ea + sign * Eb
        return MT(self.sym, self.ferm, la, self.tree, self.n, E, self.isdiag, self.cplx or other.cplx)

    def tensordot(self, other, axes):
        ia, ib = list(axes[0]), list(axes[1])
        pairs = []
        for i, j in zip(ia, ib):
            pairs.extend(zip(leaves(self.tree[i]), leaves(other.tree[j])))
        Ea, Eb, la, lb = self._unify(other, pairs, -1)
        ca = [x for x, _ in pairs]
        cb = [y for _, y in pairs]
        E = None if Ea is None else np.tensordot(Ea, Eb, axes=(ca, cb))
        keep_a = [i for i in range(self.ndim) if i not in ia]
        keep_b = [j for j in range(other.ndim) if j not in ib]
        lva = [x for i in keep_a for x in leaves(self.tree[i])]
        lvb = [y for j in keep_b for y in leaves(other.tree[j])]
        if E is not None:
            # np.tensordot keeps remaining axes in original order; reorder into logical-leaf order
            rem_a = [x for x in range(len(la)) if x not in ca]
            rem_b = [y for y in range(len(lb)) if y not in cb]
            perm = [rem_a.index(x) for x in lva] + [len(rem_a) + rem_b.index(y) for y in lvb]
            E = np.transpose(E, perm)
        ma = {old: new for new, old in enumerate(lva)}
        mb = {old: new + len(lva) for new, old in enumerate(lvb)}
        tree = [renumber(self.tree[i], ma) for i in keep_a] + [renumber(other.tree[j], mb) for j in keep_b]
        legs = [la[x] for x in lva] + [lb[y] for y in lvb]
        return MT(self.sym, self.ferm, legs, tree, gsum(self.sym, [self.n, other.n], [1, 1]), E, False,
                  self.cplx or other.cplx)

    def trace(self, axes):
        i0, i1 = list(axes[0]), list(axes[1])
        pairs = []
        for i, j in zip(i0, i1):
            pairs.extend(zip(leaves(self.tree[i]), leaves(self.tree[j])))
        E, legs = self.E, list(self.legs)
        for x, y in pairs:
            u = legs[x].union(ELeg(legs[x].s, legs[y].tD))
            uy = ELeg(legs[y].s, u.tD)
            if E is not None:
                E = embed_axis(embed_axis(E, x, legs[x], u), y, legs[y], uy)
            legs[x], legs[y] = u, uy
        gone = [x for p in pairs for x in p]
        keep_l = [i for i in range(self.ndim) if i not in i0 + i1]
        lv = [x for i in keep_l for x in leaves(self.tree[i])]
        if E is not None:
            letters = 'abcdefghijklmnopqrstuvwxyzABCDEFGHIJKLMNOPQRSTUVWXYZ'
            sub = [None] * len(legs)
            k = 0
            for x, y in pairs:
                sub[x] = sub[y] = letters[k]
                k += 1
            for x in range(len(legs)):
                if sub[x] is None:
                    sub[x] = letters[k]
                    k += 1
            E = np.einsum(''.join(sub) + '->' + ''.join(sub[x] for x in lv), E)
        mapping = {old: new for new, old in enumerate(lv)}
        tree = [renumber(self.tree[i], mapping) for i in keep_l]
        return MT(self.sym, self.ferm, [legs[x] for x in lv], tree, self.n, E, False, self.cplx)

    def swap_gate_signs(self, groups0, groups1):
        """Sign array for swap_gate(axes=(g0, g1, ...)): product over pairs of (-1)^(p(t_g0) . p(t_g1)) where the
        parity of a group of logical legs is the sum of its leaf parities (restricted to fermionic components)."""
        nl = len(self.legs)
        ns = len(self.n)
        # per-leaf parity vectors along the dense axis
        pv = []
        for l in self.legs:
            arr = np.zeros((l.dim, ns), dtype=np.int64)
            for t, (lo, hi) in l.offsets().items():
                arr[lo:hi, :] = parity(self.sym, t, self.ferm)
            pv.append(arr)
        sign_exp = np.zeros(self.shape(), dtype=np.int64)
        for g0, g1 in zip(groups0, groups1):
            l0 = [x for i in g0 for x in leaves(self.tree[i])]
            l1 = [x for i in g1 for x in leaves(self.tree[i])]
            for c in range(ns):
                p0 = np.zeros(self.shape(), dtype=np.int64)
                p1 = np.zeros(self.shape(), dtype=np.int64)
                for x in l0:
                    sh = [1] * nl
                    sh[x] = self.legs[x].dim
                    p0 = p0 + pv[x][:, c].reshape(sh)
                for x in l1:
                    sh = [1] * nl
                    sh[x] = self.legs[x].dim
                    p1 = p1 + pv[x][:, c].reshape(sh)
                sign_exp = sign_exp + (p0 % 2) * (p1 % 2)
        return 1 - 2 * (sign_exp % 2)


def _cp(node):
    if isinstance(node, int):
        return node
    return (node[0], [_cp(ch) for ch in node[1]])


# ------------------------------------------------------------------------------------------------
# building a model tensor from a descriptor (mirrors common.build_tensor's value stream)
# ------------------------------------------------------------------------------------------------

def model_from_desc(sym, ferm, td, values='int'):
    from .common import allowed_blocks, int_values, float_values
    s, n = tuple(td['s']), tuple(td['n'])
    cplx = td.get('dtype', 'float64').startswith('complex')
    rng = np.random.default_rng(td.get('seed', 0))
    gen = int_values if values == 'int' else float_values
    dt = np.complex128 if cplx else np.float64
    if td.get('isdiag'):
        leg = ELeg(s[0], dict(zip(map(tuple, td['legs'][0]['t']), td['legs'][0]['D'])))
        legs = [leg, leg.conj()]
        E = np.zeros((leg.dim, leg.dim), dtype=dt)
        drop = td.get('drop', 0)
        off = leg.offsets()
        for i, (t, D) in enumerate(leg.tD.items()):
            if (drop >> i) & 1:
                continue
            lo, hi = off[t]
            E[lo:hi, lo:hi] = np.diag(gen(rng, (D,), cplx))
        return MT(sym, ferm, legs, [0, 1], n, E, True, cplx)
    legs = [ELeg(si, dict(zip(map(tuple, lg['t']), lg['D']))) for si, lg in zip(s, td['legs'])]
    E = np.zeros([l.dim for l in legs], dtype=dt)
    offs = [l.offsets() for l in legs]
    drop = td.get('drop', 0)
    for i, key in enumerate(allowed_blocks(sym, s, n, td['legs'])):
        Ds = tuple(legs[k].tD[t] for k, t in enumerate(key))
        val = gen(rng, Ds, cplx)
        if (drop >> i) & 1:
            continue
        E[tuple(slice(*offs[k][t]) for k, t in enumerate(key))] = val
    return MT(sym, ferm, legs, list(range(len(legs))), n, E, False, cplx)


def structure_from_desc(sym, ferm, td):
    """Same as model_from_desc but without data (used while drawing)."""
    s, n = tuple(td['s']), tuple(td['n'])
    cplx = td.get('dtype', 'float64').startswith('complex')
    if td.get('isdiag'):
        leg = ELeg(s[0], dict(zip(map(tuple, td['legs'][0]['t']), td['legs'][0]['D'])))
        return MT(sym, ferm, [leg, leg.conj()], [0, 1], n, None, True, cplx)
    legs = [ELeg(si, dict(zip(map(tuple, lg['t']), lg['D']))) for si, lg in zip(s, td['legs'])]
    return MT(sym, ferm, legs, list(range(len(legs))), n, None, False, cplx)


# ------------------------------------------------------------------------------------------------
# observing a yastn tensor in the model's elementary layout
# ------------------------------------------------------------------------------------------------

def full_unfuse(y):
    """Undo every fusion layer (meta and hard product fusions); legs produced by block() ('s') stay."""
    for _ in range(16):
        if y.isdiag or y.ndim == 0:
            return y
        axes = tuple(i for i, l in enumerate(y.get_legs()) if l.history()[0] in 'pm')
        if not axes:
            return y
        y = y.unfuse_legs(axes=axes)
    return y


def observe(y, mt, config):
    """Dense array of yastn tensor y in mt's elementary layout (wide tables). Raises ObserveError on mismatch."""
    from .common import mk_leg
    z = full_unfuse(y)
    if z.isdiag:
        legs = {0: mk_leg(config, mt.legs[0].s, mt.legs[0].tD)}
        zl = z.get_legs()
        if zl[0].s != mt.legs[0].s or zl[1].s != mt.legs[1].s:
            raise ObserveError(f'diagonal tensor signatures {(zl[0].s, zl[1].s)} != model {(mt.legs[0].s, mt.legs[1].s)}')
        if any(mt.legs[0].tD.get(t) != D for t, D in zip(zl[0].t, zl[0].D)):
            raise ObserveError(f'diag leg {dict(zip(zl[0].t, zl[0].D))} not inside model table {mt.legs[0].tD}')
        return z.to_numpy(legs=legs)
    if z.ndim_n != len(mt.legs):
        raise ObserveError(f'rank after unfusing {z.ndim_n} != model {len(mt.legs)}')
    zl = z.get_legs(native=True)
    legs, manual = {}, []
    for i, (l, ml) in enumerate(zip(zl, mt.legs)):
        if l.s != ml.s:
            raise ObserveError(f'leg {i}: signature {l.s} != model {ml.s}')
        if l.history()[0] in 'pm':
            raise ObserveError(f'leg {i} still fused after full unfusion: {l.history()}')
        for t, D in zip(l.t, l.D):
            if ml.tD.get(t) != D:
                raise ObserveError(f'leg {i}: sector {t}:{D} not inside model table {ml.tD}')
        if l.history() == 'o':
            legs[i] = mk_leg(config, ml.s, ml.tD)
        else:   # leg produced by block(): embedded on the model side (a plain Leg cannot describe its history)
            manual.append((i, ELeg(l.s, dict(zip(l.t, l.D))), ml))
    A = z.to_numpy(legs=legs, native=True)
    for i, src, dst in manual:
        A = embed_axis(A, i, src, dst)
    return A


class ObserveError(Exception):
    pass
