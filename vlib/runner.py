"""Sharded, seeded, collect-then-shrink driver shared by all property checks.

A check module exposes ``ID``, ``RULE``, ``ASSUMPTIONS`` and ``parts(tier) -> [Part]``.
A Part knows how many shards it wants and how to run one shard; the helpers below implement the three
kinds used in this framework (Hypothesis-driven descriptor search, rule-based state machines, exhaustive
enumeration in chunks). All of them report through the same ``ShardResult`` dictionary.
"""
import hashlib
import json
import multiprocessing as mp
import os
import sys
import time
import threading
import traceback
from collections import Counter

VERIF = os.path.dirname(os.path.dirname(os.path.abspath(__file__)))
OUT_REPLAYS = os.path.join(VERIF, 'out', 'replays' if os.environ.get('VERIF_NO_EVIDENCE') != '1' else 'replays_mut')
MAX_SHARDS = int(os.environ.get('VERIF_JOBS', '16'))
MAX_HASHES = 200000  # per shard cap on stored nontrivial hashes (memory guard; counted conservatively)


class Res:
    """Verdict of executing one case."""
    __slots__ = ('status', 'key', 'msg', 'labels', 'nontrivial', 'extra')

    def __init__(self, status='pass', key=None, msg='', labels=(), nontrivial=False, extra=None):
        self.status = status          # 'pass' | 'violation' | 'rejected'
        self.key = key                # root-cause key for violations
        self.msg = msg
        self.labels = list(labels)
        self.nontrivial = nontrivial
        self.extra = extra


class Violation(Exception):
    """Raised by oracle code; carries the root-cause key."""

    def __init__(self, key, msg=''):
        super().__init__(f'{key}: {msg}')
        self.key = key
        self.msg = msg


class Reject(Exception):
    """Raised when the generated case is outside the contract (counted, not compared)."""

    def __init__(self, reason=''):
        super().__init__(reason)
        self.reason = reason


def derive_seed(seed, *parts):
    h = hashlib.sha256(repr((int(seed),) + tuple(parts)).encode()).digest()
    return int.from_bytes(h[:8], 'big')


def new_result():
    return {'evaluations': 0, 'labels': Counter(), 'nt_hashes': set(), 'nt_overflow': 0, 'samples': [],
            'violations': {}, 'known': {}, 'errors': [], 'rejected': 0, 'excluded': 0, 'extra': {}, 'nt_enum': 0}


def _jd(o):
    from .common import _jsonable
    return _jsonable(o)


def dhash(desc):
    return hashlib.sha1(json.dumps(desc, sort_keys=True, default=_jd).encode()).hexdigest()


class Part:
    name = 'part'
    exhaustive = False

    def n_shards(self, tier):
        return 1

    def run_shard(self, ctx):  # ctx: dict(tier, seed, shard, n_shards, known_keys)
        raise NotImplementedError

    def execute(self, desc):
        raise NotImplementedError


class CaseTimeout(BaseException):
    pass


def _on_alarm(signum, frame):
    raise CaseTimeout()


CASE_TIMEOUT = int(os.environ.get('VERIF_CASE_TIMEOUT', '300'))


def run_execute(execute, desc):
    """Call execute, mapping oracle exceptions to Res. Unexpected exceptions propagate (harness error).

    A single case that does not return within VERIF_CASE_TIMEOUT seconds (default 300; ordinary cases take milliseconds to seconds) is
    reported as a violation with key 'hang': every generated input is valid, so the call has to terminate."""
    import signal
    use_alarm = threading.current_thread() is threading.main_thread() and hasattr(signal, 'SIGALRM')
    if use_alarm:
        signal.signal(signal.SIGALRM, _on_alarm)
        signal.alarm(CASE_TIMEOUT)
    try:
        r = execute(desc)
        return r if isinstance(r, Res) else Res()
    except CaseTimeout:
        return Res('violation', key='hang', msg=f'the case did not return within {CASE_TIMEOUT} s (non-termination?)')
    except Violation as v:
        return Res('violation', key=v.key, msg=v.msg)
    except Reject as r:
        return Res('rejected', msg=r.reason, labels=['rejected:' + r.reason])
    except (AssertionError, IndexError, KeyError, ValueError, TypeError, AttributeError, ZeroDivisionError, UnboundLocalError, NameError) as e:
        # a crash whose innermost frame lies inside the package under test (and not in hypothesis / the harness) is a violation of
        # "handled or rejected cleanly"; anything else is a harness error and propagates
        tb = traceback.extract_tb(e.__traceback__)
        inner = tb[-1] if tb else None
        if inner is not None and '/yastn/' in inner.filename.replace('\\', '/') and '/verif/' not in inner.filename:
            return Res('violation', key=f'crash:{type(e).__name__}:{os.path.basename(inner.filename)}:{inner.name}',
                       msg=f'{type(e).__name__}: {str(e)[:200]} at {os.path.basename(inner.filename)}:{inner.lineno} ({inner.name})')
        raise
    finally:
        if use_alarm:
            signal.alarm(0)


def record(res, desc, r, known_keys, want_samples=4):
    """Book-keeping for one executed case. Returns True when the case is a *new* violation."""
    res['evaluations'] += 1
    for lab in r.labels:
        res['labels'][lab] += 1
    if r.status == 'rejected':
        res['rejected'] += 1
        return False
    if r.nontrivial:
        if len(res['nt_hashes']) < MAX_HASHES:
            res['nt_hashes'].add(dhash(desc))
        else:
            res['nt_overflow'] += 1
        if len(res['samples']) < want_samples:
            res['samples'].append(desc)
    if r.status == 'violation':
        if r.key in known_keys:
            res['excluded'] += 1
            res['labels']['excluded_known_finding:' + r.key] += 1
            res['known'].setdefault(r.key, {'desc': desc, 'msg': r.msg})
            return False
        res['violations'][r.key] = {'desc': desc, 'msg': r.msg}  # last failing = most shrunk so far
        return True
    return False


class HypPart(Part):
    """Descriptor search driven by Hypothesis: draw(data) -> JSON descriptor, execute(desc) -> Res."""

    def __init__(self, name, draw, execute, budget, shards=None, shrink_s=None, max_rounds=3):
        self.name, self.draw, self._execute, self.budget = name, draw, execute, budget
        self.shards = shards
        self.shrink_s = shrink_s or {'quick': 25.0, 'thorough': 120.0}
        self.max_rounds = max_rounds

    def execute(self, desc):
        return run_execute(self._execute, desc)

    def n_shards(self, tier):
        n = self.budget[tier]
        if self.shards:
            return min(MAX_SHARDS, self.shards.get(tier, MAX_SHARDS))
        return max(1, min(MAX_SHARDS, n // 20))

    def run_shard(self, ctx):
        import hypothesis
        from hypothesis import given, settings, strategies as st, HealthCheck, Phase
        res = new_result()
        tier = ctx['tier']
        total = max(1, int(self.budget[tier] * float(os.environ.get('VERIF_BUDGET_SCALE', '1'))))   # (scale < 1: smoke test of a tier)
        nsh = ctx['n_shards']
        n = total // nsh + (1 if ctx['shard'] < total % nsh else 0)
        known = set(ctx['known_keys'])
        excluded_found = set()
        remaining = n
        rounds = 0
        while remaining > 0 and rounds < self.max_rounds:
            rounds += 1
            state = {'count': 0, 't_fail': None}
            sd = derive_seed(ctx['seed'], ctx['property'], self.name, ctx['shard'], rounds)

            @hypothesis.seed(sd)
            @settings(max_examples=remaining, database=None, deadline=None, derandomize=False,
                      report_multiple_bugs=False, print_blob=False,
                      suppress_health_check=list(HealthCheck),
                      phases=[Phase.generate, Phase.shrink])
            @given(st.data())
            def test(data):
                if state['t_fail'] is not None and time.time() - state['t_fail'] > self.shrink_s[tier]:
                    return  # shrink budget used up: let the shrinker run dry quickly
                desc = self.draw(data, tier)
                r = self.execute(desc)
                if r.status == 'violation' and r.key in excluded_found:
                    res['labels']['excluded_already_found:' + r.key] += 1
                    r = Res('pass', labels=r.labels)
                state['count'] += 1
                if record(res, desc, r, known):
                    if state['t_fail'] is None:
                        state['t_fail'] = time.time()
                        state['count_at_fail'] = state['count']
                    raise AssertionError('violation')

            try:
                test()
                remaining = 0
            except hypothesis.errors.Unsatisfiable as e:  # generator problem -> harness error
                res['errors'].append('Unsatisfiable: ' + str(e))
                remaining = 0
            except (AssertionError, hypothesis.errors.Flaky, hypothesis.errors.FlakyFailure, BaseExceptionGroup):
                if state['t_fail'] is None:
                    res['errors'].append('hypothesis failure without recorded violation:\n' + traceback.format_exc())
                    remaining = 0
                else:
                    excluded_found |= set(res['violations'].keys())
                    remaining = max(0, remaining - state.get('count_at_fail', remaining))
        return res


class EnumPart(Part):
    """Exhaustive enumeration split into chunks; run_chunk(chunk, res, known) records cases itself."""
    exhaustive = True

    def __init__(self, name, chunks, run_chunk, execute=None):
        self.name, self._chunks, self._run_chunk, self._execute = name, chunks, run_chunk, execute

    def execute(self, desc):
        return run_execute(self._execute, desc)

    def n_shards(self, tier):
        return max(1, min(MAX_SHARDS, len(self._chunks(tier))))

    def run_shard(self, ctx):
        res = new_result()
        chunks = self._chunks(ctx['tier'])
        for i, ch in enumerate(chunks):
            if i % ctx['n_shards'] == ctx['shard']:
                try:
                    self._run_chunk(ch, res, set(ctx['known_keys']), ctx)
                except Exception:
                    res['errors'].append(f'chunk {ch!r}:\n' + traceback.format_exc())
        return res


class MachinePart(Part):
    """Hypothesis RuleBasedStateMachine part. ``factory(res, known, tier)`` returns the machine class; the
    machine appends its steps to ``self.steps`` and calls ``self.finish()`` in teardown."""

    def __init__(self, name, factory, budget, steps, replay=None):
        self.name, self.factory, self.budget, self.steps, self._replay = name, factory, budget, steps, replay

    def execute(self, desc):
        return run_execute(self._replay, desc)

    def n_shards(self, tier):
        return max(1, min(MAX_SHARDS, self.budget[tier] // 5))

    def run_shard(self, ctx):
        import hypothesis
        from hypothesis import settings, HealthCheck, Phase
        from hypothesis.stateful import run_state_machine_as_test
        res = new_result()
        tier = ctx['tier']
        total = max(1, int(self.budget[tier] * float(os.environ.get('VERIF_BUDGET_SCALE', '1'))))   # (scale < 1: smoke test of a tier)
        nsh = ctx['n_shards']
        n = total // nsh + (1 if ctx['shard'] < total % nsh else 0)
        if n == 0:
            return res
        sd = derive_seed(ctx['seed'], ctx['property'], self.name, ctx['shard'])
        state = {'t_fail': None}
        Machine = self.factory(res, set(ctx['known_keys']), tier, state)
        sett = settings(max_examples=n, stateful_step_count=self.steps[tier], database=None, deadline=None,
                        derandomize=False, report_multiple_bugs=False, print_blob=False,
                        suppress_health_check=list(HealthCheck), phases=[Phase.generate, Phase.shrink])
        try:
            run_state_machine_as_test(hypothesis.seed(sd)(Machine), settings=sett)
        except (AssertionError, hypothesis.errors.Flaky, hypothesis.errors.FlakyFailure, BaseExceptionGroup):
            if not res['violations']:
                res['errors'].append('machine failure without recorded violation:\n' + traceback.format_exc())
        return res


# ------------------------------------------------------------------------------------------------
# parent side
# ------------------------------------------------------------------------------------------------

def _worker(args):
    modname, part_index, ctx = args
    os.environ['PYTHONHASHSEED'] = '0'
    try:
        import importlib
        mod = importlib.import_module(modname)
        part = mod.parts(ctx['tier'])[part_index]
        t0 = time.time()
        res = part.run_shard(ctx)
        res['wall'] = time.time() - t0
    except BaseException:  # harness error
        res = new_result()
        res['errors'].append(traceback.format_exc())
        res['wall'] = 0.0
    res['part'] = part_index
    res['labels'] = dict(res['labels'])
    res['nt_hashes'] = list(res['nt_hashes'])
    return res


def load_known(prop):
    path = os.path.join(VERIF, 'known_findings.json')
    if not os.path.exists(path):
        return {}
    with open(path) as f:
        data = json.load(f)
    return {e['key']: e for e in data.get('findings', []) if e['property'] == prop and e.get('status') == 'open'}


def run_property(modname, tier, seed):
    """Run every part of a check module; write evidence; print VIOLATION / KNOWN-FINDING lines; return exit code."""
    import importlib
    from .common import jdump
    t0 = time.time()
    mod = importlib.import_module(modname)
    prop = mod.ID
    known = load_known(prop)
    parts = mod.parts(tier)
    tasks = []
    for pi, part in enumerate(parts):
        ns = part.n_shards(tier)
        for sh in range(ns):
            ctx = {'tier': tier, 'seed': seed, 'shard': sh, 'n_shards': ns, 'property': prop,
                   'known_keys': sorted(known.keys())}
            tasks.append((modname, pi, ctx))
    # regression corpus first (in-process, seconds)
    replay_corpus.known = {}
    reg_viol = replay_corpus(mod, parts, known)
    mpctx = mp.get_context('spawn')
    results = []
    if tasks:
        with mpctx.Pool(min(MAX_SHARDS, len(tasks)), maxtasksperchild=1) as pool:
            for r in pool.imap_unordered(_worker, tasks):
                results.append(r)
    # aggregate
    agg = {'evaluations': 0, 'labels': Counter(), 'nt': set(), 'nt_enum': 0, 'rejected': 0, 'excluded': 0,
           'violations': {}, 'known': {}, 'errors': [], 'samples': {}, 'per_part': {}, 'extra': {}}
    for r in results:
        pname = parts[r['part']].name
        agg['evaluations'] += r['evaluations']
        agg['labels'].update({f'{pname}/{k}': v for k, v in r['labels'].items()})
        agg['nt'].update((pname, h) for h in r['nt_hashes'])
        agg['rejected'] += r['rejected']
        agg['nt_enum'] += r.get('nt_enum', 0)
        agg['excluded'] += r['excluded']
        agg['errors'].extend(r['errors'])
        pp = agg['per_part'].setdefault(pname, {'evaluations': 0, 'distinct_nontrivial': set(), 'wall_s': 0.0,
                                                  'shards': 0})
        pp['evaluations'] += r['evaluations']
        pp['distinct_nontrivial'].update(r['nt_hashes'])
        pp['nt_enum'] = pp.get('nt_enum', 0) + r.get('nt_enum', 0)
        pp['wall_s'] = max(pp['wall_s'], r.get('wall', 0.0))
        pp['shards'] += 1
        for k, v in r.get('extra', {}).items():
            if isinstance(v, (int, float)):
                agg['extra'][f'{pname}/{k}'] = agg['extra'].get(f'{pname}/{k}', 0) + v
            else:
                agg['extra'].setdefault(f'{pname}/{k}', v)
        sm = agg['samples'].setdefault(pname, [])
        for s in r['samples']:
            if len(sm) < 3:
                sm.append(s)
        for k, v in r['violations'].items():
            cur = agg['violations'].get(k)
            if cur is None or len(jdump(v['desc'])) < len(jdump(cur['desc'])):
                agg['violations'][k] = dict(v, part=pname)
        for k, v in r['known'].items():
            agg['known'].setdefault(k, dict(v, part=pname))
    for k, v in reg_viol.items():
        agg['violations'].setdefault(k, v)
    for k, v in replay_corpus.known.items():     # open known findings reproduced by their committed replay files
        agg['known'].setdefault(k, v)
    wall = time.time() - t0
    # output
    code = 0
    for k, v in sorted(agg['known'].items()):
        print(f"KNOWN-FINDING: property={prop} {known[k]['what']}")
        write_replay(prop, v.get('part', '?'), k, v['desc'], v['msg'], sub='known')
    for k, v in sorted(agg['violations'].items()):
        path = write_replay(prop, v['part'], k, v['desc'], v['msg'])
        print(f"VIOLATION property={prop} replay={path}")
        print(f"  key={k} part={v['part']} msg={v['msg'][:300]}")
        code = 1
    if agg['errors']:
        for e in agg['errors'][:5]:
            print('HARNESS-ERROR:', e, file=sys.stderr)
        if code == 0:
            code = 2
    per_part = {k: {'evaluations': v['evaluations'], 'distinct_nontrivial': len(v['distinct_nontrivial']) + v.get('nt_enum', 0),
                    'shards': v['shards'], 'max_shard_wall_s': round(v['wall_s'], 2),
                    'exhaustive': bool(next(p for p in parts if p.name == k).exhaustive)}
                for k, v in agg['per_part'].items()}
    samples = []
    for pname, sm in agg['samples'].items():
        for s in sm:
            samples.append({'part': pname, 'case': s})
    if not samples:
        samples = [{'note': 'no non-trivial case recorded'}]
    coverage = {
        'evaluations': agg['evaluations'],
        'distinct_nontrivial': len(agg['nt']) + agg['nt_enum'],
        'rule': mod.RULE,
        'samples': samples,
        'labels': dict(sorted(agg['labels'].items())),
        'per_part': per_part,
        'rejected_by_contract': agg['rejected'],
        'excluded_known_finding': agg['excluded'],
        'known_findings_reproduced': sorted(agg['known'].keys()),
        'regression_replays': getattr(replay_corpus, 'last_count', 0),
        'harness_errors': len(agg['errors']),
    }
    coverage.update(agg['extra'])
    if all(p.exhaustive for p in parts):
        coverage['exhaustive'] = True
    elif any(p.exhaustive for p in parts):
        coverage['exhaustive_parts'] = [p.name for p in parts if p.exhaustive]
    ev = {'property_id': prop, 'tier': tier, 'seed': int(seed), 'level': 'exploration', 'coverage': coverage,
          'assumptions': list(getattr(mod, 'ASSUMPTIONS', [])), 'wall_s': round(wall, 2),
          'violations': len(agg['violations'])}
    if os.environ.get('VERIF_NO_EVIDENCE') != '1':  # sensitivity runs against scratch copies leave evidence alone
        os.makedirs(os.path.join(VERIF, 'evidence'), exist_ok=True)
        with open(os.path.join(VERIF, 'evidence', f'{prop}.json'), 'w') as f:
            f.write(jdump(ev, indent=1, sort_keys=False))
    print(f"{prop} tier={tier} seed={seed} evaluations={agg['evaluations']} distinct_nontrivial={len(agg['nt']) + agg['nt_enum']} "
          f"rejected={agg['rejected']} violations={len(agg['violations'])} known={len(agg['known'])} "
          f"errors={len(agg['errors'])} wall={wall:.1f}s")
    return code


def write_replay(prop, part, key, desc, msg, sub=None):
    from .common import jdump
    d = os.path.join(OUT_REPLAYS if sub is None else os.path.join(os.path.dirname(OUT_REPLAYS), sub), prop)
    os.makedirs(d, exist_ok=True)
    h = dhash({'part': part, 'desc': desc})[:12]
    path = os.path.join(d, f'{h}.json')
    with open(path, 'w') as f:
        f.write(jdump({'property': prop, 'part': part, 'key': key, 'msg': msg, 'desc': desc}, indent=1))
    return path


def replay_corpus(mod, parts, known):
    """Run the committed regression replays of this property (bypasses Hypothesis)."""
    d = os.path.join(VERIF, 'replays', mod.ID)
    out = {}
    count = 0
    if os.path.isdir(d):
        byname = {p.name: p for p in parts}
        for fn in sorted(os.listdir(d)):
            if not fn.endswith('.json'):
                continue
            with open(os.path.join(d, fn)) as f:
                rp = json.load(f)
            part = byname.get(rp['part'])
            if part is None:
                continue
            count += 1
            r = part.execute(rp['desc'])
            if r.status == 'violation' and r.key not in known:
                out[r.key] = {'desc': rp['desc'], 'msg': r.msg, 'part': rp['part']}
            elif r.status == 'violation':
                replay_corpus.known[r.key] = {'desc': rp['desc'], 'msg': r.msg, 'part': rp['part']}
    replay_corpus.last_count = count
    return out


replay_corpus.known = {}


def replay_file(modname, path):
    import importlib
    mod = importlib.import_module(modname)
    with open(path) as f:
        rp = json.load(f)
    parts = {p.name: p for p in mod.parts('quick')}
    part = parts[rp['part']]
    r = part.execute(rp['desc'])
    known = load_known(mod.ID)
    if r.status == 'violation':
        if r.key in known:
            print(f"KNOWN-FINDING: property={mod.ID} {known[r.key]['what']}")
            return 0
        print(f"VIOLATION property={mod.ID} replay={path}")
        print(f"  key={r.key} msg={r.msg[:500]}")
        return 1
    print(f"replay {path}: {r.status} {r.msg}")
    return 0
