"""Configs, the independent group law, leg/tensor descriptors and builders.

Everything here is pure: descriptors are JSON-serialisable, block values are a pure function of an
integer seed stored in the descriptor, and the group law never calls yastn's ``sym.fuse``.
"""
import hashlib
import itertools
import json
import os
import sys

import numpy as np

REPO = os.environ.get('VERIF_REPO', '/repo')
if REPO not in sys.path:
    sys.path.insert(0, REPO)

import yastn  # noqa: E402
from yastn import YastnError  # noqa: E402

# ------------------------------------------------------------------------------------------------
# symmetries
# ------------------------------------------------------------------------------------------------

SYMS = ('dense', 'Z2', 'Z3', 'U1', 'Z2xU1', 'U1xU1', 'U1xU1xZ2')
MODULI = {'dense': (), 'Z2': (2,), 'Z3': (3,), 'U1': (0,), 'Z2xU1': (2, 0), 'U1xU1': (0, 0),
          'U1xU1xZ2': (0, 0, 2)}


def sym_class(name):
    return {'dense': yastn.sym.sym_none, 'Z2': yastn.sym.sym_Z2, 'Z3': yastn.sym.sym_Z3,
            'U1': yastn.sym.sym_U1, 'Z2xU1': yastn.sym.sym_Z2xU1, 'U1xU1': yastn.sym.sym_U1xU1,
            'U1xU1xZ2': yastn.sym.sym_U1xU1xZ2}[name]


def nsym(name):
    return len(MODULI[name])


def gsum(sym, charges, signs, new_sig=1):
    """Independent group law: new_sig * sum_i signs[i] * charges[i], reduced to the canonical range."""
    mod = MODULI[sym]
    out = []
    for k, m in enumerate(mod):
        v = new_sig * sum(int(s) * int(t[k]) for t, s in zip(charges, signs))
        out.append(v % m if m else v)
    return tuple(out)


def gneg(sym, charge):
    return gsum(sym, [charge], [-1])


def canonical(sym, charge):
    mod = MODULI[sym]
    return len(charge) == len(mod) and all((0 <= c < m) if m else True for c, m in zip(charge, mod))


def charge_box(sym, B):
    """All canonical charges with |t| <= B on U(1) factors (complete for finite factors)."""
    mod = MODULI[sym]
    rngs = [range(m) if m else range(-B, B + 1) for m in mod]
    return [tuple(x) for x in itertools.product(*rngs)]


def parity(sym, charge, fermionic):
    """Parity vector of a charge restricted to the components flagged fermionic."""
    ns = nsym(sym)
    if fermionic is False or ns == 0:
        return (0,) * ns
    flags = (True,) * ns if fermionic is True else tuple(bool(x) for x in fermionic)
    return tuple((int(c) % 2) if f else 0 for c, f in zip(charge, flags))


def swap_sign(sym, t0, t1, fermionic):
    """Sign of exchanging charges t0 and t1: (-1)^(sum over fermionic components of t0*t1)."""
    p0, p1 = parity(sym, t0, fermionic), parity(sym, t1, fermionic)
    return -1 if sum(a * b for a, b in zip(p0, p1)) % 2 else 1


# ------------------------------------------------------------------------------------------------
# configs
# ------------------------------------------------------------------------------------------------

def make_config(cd):
    """cd: {'sym', 'fermionic', 'dtype', 'policy', 'fusion', 'force'} -> yastn config."""
    ferm = cd.get('fermionic', False)
    if isinstance(ferm, list):
        ferm = tuple(bool(x) for x in ferm)
    kw = dict(sym=sym_class(cd['sym']), fermionic=ferm,
              default_dtype=cd.get('dtype', 'float64'),
              tensordot_policy=cd.get('policy', 'fuse_contracted'),
              default_fusion=cd.get('fusion', 'hard'))
    if cd.get('force'):
        kw['force_fusion'] = cd['force']
    return yastn.make_config(**kw)


# ------------------------------------------------------------------------------------------------
# descriptors -> tensors
# ------------------------------------------------------------------------------------------------

def allowed_blocks(sym, s, n, legs):
    """legs: list of {'t': [...], 'D': [...]}; returns sorted list of block keys (tuples of charge tuples)."""
    if len(s) == 0:
        return [()] if tuple(n) == tuple(0 for _ in n) else []
    ts = [[tuple(t) for t in leg['t']] for leg in legs]
    out = []
    for comb in itertools.product(*ts):
        if gsum(sym, comb, s) == tuple(n):
            out.append(comb)
    return sorted(out)


def int_values(rng, shape, complex_):
    v = rng.integers(-4, 5, size=shape).astype(np.float64)
    if complex_:
        v = v + 1j * rng.integers(-4, 5, size=shape)
    return v


def float_values(rng, shape, complex_):
    v = rng.standard_normal(size=shape)
    if complex_:
        v = v + 1j * rng.standard_normal(size=shape)
    return v


def build_tensor(config, td, values='int'):
    """Build a yastn tensor through the public API from a tensor descriptor.

    td = {'s': [...], 'n': [...], 'legs': [{'t': [[..]], 'D': [..]}], 'drop': int, 'seed': int,
          'dtype': 'float64'|'complex128', 'isdiag': bool}
    Returns (tensor, stored_keys) where stored_keys are the charge combinations that were set.
    """
    sym = config.sym.SYM_ID
    s, n = tuple(td['s']), tuple(td['n'])
    dtype = td.get('dtype', 'float64')
    cplx = dtype.startswith('complex')
    rng = np.random.default_rng(td.get('seed', 0))
    gen = int_values if values == 'int' else float_values
    if td.get('isdiag'):
        a = yastn.Tensor(config=config, s=s, isdiag=True, dtype=dtype)
        keys = []
        leg = td['legs'][0]
        drop = td.get('drop', 0)
        for i, (t, D) in enumerate(sorted(zip(map(tuple, leg['t']), leg['D']))):
            if (drop >> i) & 1:
                continue
            a.set_block(ts=t, Ds=D, val=gen(rng, (D,), cplx))
            keys.append((t, t))
        return a, keys
    a = yastn.Tensor(config=config, s=s, n=n, dtype=dtype)
    blocks = allowed_blocks(sym, s, n, td['legs'])
    tD = [dict(zip(map(tuple, leg['t']), leg['D'])) for leg in td['legs']]
    drop = td.get('drop', 0)
    keys = []
    for i, key in enumerate(blocks):
        Ds = tuple(tD[k][t] for k, t in enumerate(key))
        val = gen(rng, Ds, cplx)  # drawn even when dropped, so dropping a block does not shift the others
        if (drop >> i) & 1:
            continue
        a.set_block(ts=key, Ds=Ds, val=val)
        keys.append(key)
    return a, keys


def stored_legs(td, keys):
    """Model legs derived from the stored block set: list of dicts {t: D} per axis."""
    tD = [dict(zip(map(tuple, leg['t']), leg['D'])) for leg in td['legs']]
    if td.get('isdiag'):
        tD = [tD[0], tD[0]]
    out = [dict() for _ in td['s']]
    for key in keys:
        for k, t in enumerate(key):
            out[k][t] = tD[k][t]
    return [dict(sorted(x.items())) for x in out]


def mk_leg(config, s, tD):
    """yastn.Leg from a model sector table {t: D}."""
    ts = sorted(tD)
    return yastn.Leg(config, s=s, t=tuple(ts), D=tuple(tD[t] for t in ts))


def construction_legs(config, td):
    legs = [mk_leg(config, s, dict(zip(map(tuple, leg['t']), leg['D']))) for s, leg in zip(td['s'], td['legs'])]
    if td.get('isdiag'):
        legs = [legs[0], legs[0].conj()] if len(legs) == 1 else legs
    return legs


def leg_table(leg):
    """{t: D} of a yastn Leg (or LegMeta)."""
    return dict(zip(leg.t, leg.D))


# ------------------------------------------------------------------------------------------------
# dense observers
# ------------------------------------------------------------------------------------------------

def dense_from_blocks(a):
    """Re-assemble the dense array of ``a`` from a[key] and get_legs() only (no to_numpy).

    Sectors are laid out in increasing charge order on every (logical) leg; meta-fused legs are laid out in
    increasing order of the concatenated native charges, as LegMeta.t documents.
    """
    ns = a.config.sym.NSYM
    if a.isdiag:
        leg = a.get_legs(0)
        offs, tot = {}, 0
        for t, D in zip(leg.t, leg.D):
            offs[t] = (tot, tot + D)
            tot += D
        out = np.zeros((tot, tot), dtype=a.dtype if hasattr(a, 'dtype') else np.float64)
        for t in leg.t:
            try:
                blk = a[t + t]
            except YastnError:
                continue
            lo, hi = offs[t]
            out[lo:hi, lo:hi] = np.diag(np.asarray(blk))
        return out
    legs = a.get_legs()
    nlegs = a.get_legs(native=True)
    groups = []  # native axes per logical leg
    pos = 0
    for leg in legs:
        k = len(leg.legs) if hasattr(leg, 'legs') else 1
        groups.append(tuple(range(pos, pos + k)))
        pos += k
    offs, shape = [], []
    for leg in legs:
        o, tot = {}, 0
        for t, D in zip(leg.t, leg.D):
            o[t] = (tot, tot + D)
            tot += D
        offs.append(o)
        shape.append(tot)
    out = np.zeros(shape, dtype=a.dtype)
    if len(legs) == 0:
        try:
            return np.asarray(a[()]).reshape(())
        except YastnError:
            return out
    for key in itertools.product(*(leg.t for leg in nlegs)):
        flat = tuple(itertools.chain.from_iterable(key))
        try:
            blk = np.asarray(a[flat])
        except YastnError:
            continue
        slc, rsh = [], []
        for g, o in zip(groups, offs):
            tt = tuple(itertools.chain.from_iterable(key[i] for i in g))
            lo, hi = o[tt]
            slc.append(slice(lo, hi))
            rsh.append(hi - lo)
        out[tuple(slc)] = blk.reshape(rsh)
    return out


def dense(a, legs=None):
    """a.to_numpy embedded into the given yastn legs ({axis: Leg}) when provided."""
    if legs is None:
        return a.to_numpy()
    if isinstance(legs, (list, tuple)):
        legs = dict(enumerate(legs))
    return a.to_numpy(legs=legs)


# ------------------------------------------------------------------------------------------------
# misc
# ------------------------------------------------------------------------------------------------

def dhash(desc):
    return hashlib.sha1(json.dumps(desc, sort_keys=True, default=_jsonable).encode()).hexdigest()


def _jsonable(o):
    if isinstance(o, (np.integer,)):
        return int(o)
    if isinstance(o, (np.floating,)):
        return float(o)
    if isinstance(o, complex):
        return {'re': o.real, 'im': o.imag}
    if isinstance(o, np.ndarray):
        return o.tolist()
    if isinstance(o, (set, frozenset)):
        return sorted(o)
    if isinstance(o, tuple):
        return list(o)
    return repr(o)


def jdump(obj, **kw):
    return json.dumps(obj, default=_jsonable, **kw)


def tup(x):
    """Recursively convert lists to tuples (descriptors loaded from JSON)."""
    if isinstance(x, (list, tuple)):
        return tuple(tup(y) for y in x)
    return x


def cplx(x):
    """Complex number from its JSON form."""
    if isinstance(x, dict) and 're' in x:
        return complex(x['re'], x['im'])
    return x


def reseed_backend(seed):
    """Re-seed yastn's module level RNG (backend_np.rng) from a drawn integer."""
    from yastn.backend import backend_np
    backend_np.random_seed(int(seed))
