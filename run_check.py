#!/venv/bin/python
"""Entry point: ./run_check.py Cxx [--tier quick|thorough] [--replay FILE]   (env: VERIF_SEED, VERIF_TIER)

exit 0 = property held on everything explored; 1 = VIOLATION line(s) printed; 2 = harness error / inconclusive.
"""
import argparse
import glob
import os
import subprocess
import sys

HERE = os.path.dirname(os.path.abspath(__file__))

PINNED_ENV = {'PYTHONHASHSEED': '0', 'OMP_NUM_THREADS': '1', 'MKL_NUM_THREADS': '1', 'OPENBLAS_NUM_THREADS': '1',
              'NUMEXPR_NUM_THREADS': '1', 'VERIF_PINNED': '1', 'PYTHONDONTWRITEBYTECODE': '1'}


def ensure_env():
    """Re-exec once with a pinned environment so hash order and BLAS threading cannot vary between runs."""
    if os.environ.get('VERIF_PINNED') != '1':
        env = dict(os.environ)
        env.update(PINNED_ENV)
        os.execve(sys.executable, [sys.executable] + sys.argv, env)


def ensure_deps():
    try:
        import hypothesis  # noqa: F401
    except ImportError:
        subprocess.run([sys.executable, '-m', 'pip', 'install', '--no-index', '--find-links',
                        '/opt/veriftools/wheels', 'hypothesis'], check=False, stdout=subprocess.DEVNULL)


def main():
    ap = argparse.ArgumentParser()
    ap.add_argument('prop')
    ap.add_argument('--tier', default=os.environ.get('VERIF_TIER', 'quick'), choices=['quick', 'thorough'])
    ap.add_argument('--replay', default=None)
    ap.add_argument('--seed', type=int, default=None)
    args = ap.parse_args()
    ensure_env()
    ensure_deps()
    sys.path.insert(0, HERE)
    seed = args.seed if args.seed is not None else int(os.environ.get('VERIF_SEED', '1') or 1)
    prop = args.prop.upper()
    mods = glob.glob(os.path.join(HERE, 'checks', prop.lower() + '_*.py'))
    if len(mods) != 1:
        print(f'no check module for {prop}', file=sys.stderr)
        return 2
    modname = 'checks.' + os.path.basename(mods[0])[:-3]
    from vlib import runner
    try:
        if args.replay:
            return runner.replay_file(modname, args.replay)
        return runner.run_property(modname, args.tier, seed)
    except Exception:
        import traceback
        traceback.print_exc()
        return 2


if __name__ == '__main__':
    sys.exit(main())
