"""Source of MANIFEST.json (run tools/gen_manifest.py after editing)."""

SETUP = ("cd /verif && (/venv/bin/python -c 'import hypothesis' 2>/dev/null || "
         "/venv/bin/pip install --no-index --find-links /opt/veriftools/wheels hypothesis) && "
         "(/venv/bin/pip install -q --no-index --find-links /opt/veriftools/wheels --target /verif/.deps atheris "
         "|| echo 'atheris unavailable: fuzz engines will be skipped')")

HOOKS = {
    'guard': 'YASTN_VERIF',
    'enable': "no source hooks: checks import yastn from /repo's working tree (sys.path) and observe through the "
              "public API or harness-side monkey-patching after import; the guard variable is unused by the sources",
    'baseline_off_cmd': 'cd /repo && /venv/bin/python -m pytest -ra -q -p no:cacheprovider --timeout=900 '
                        '--continue-on-collection-errors',
    'source_commits': [],
    'add_only': True,
}

ENGINES = [
    {'name': 'hypothesis-descriptor-search', 'path': '/verif/vlib/runner.py',
     'serves_properties': [], 'kind_free_text':
         'Hypothesis 6.168 st.data() draws a JSON descriptor; a pure execute(descriptor) runs yastn and the oracle; '
         '16 spawn-ed shards with seeds derived from VERIF_SEED; collect-then-shrink with root-cause keys'},
    {'name': 'exhaustive-enumeration', 'path': '/verif/vlib/runner.py',
     'serves_properties': ['C19', 'C20'], 'kind_free_text': 'complete enumeration of finite boxes in chunks over 16 processes'},
]

NOTES = ("All checks: cd /verif && /venv/bin/python run_check.py Cxx --tier quick|thorough ; env VERIF_SEED. "
         "Exit 0 held / 1 VIOLATION / 2 harness error or inconclusive. Known findings: /verif/known_findings.json. "
         "Committed regression replays under /verif/replays/<id>/ are executed first by every run.")

CHECKS = [
    {'id': 'C01',
     'technique': 'Hypothesis-generated tensor programs and ncon/einsum networks compared exactly with a NumPy dense reference model',
     'text': 'Short generated programs (every listed operation, constructed contraction/addition/trace/diagonal partners with equal, '
             'overlapping or disjoint sectors, lazy and materialised permutations, hard/meta fusion, all symmetries, policies and '
             'dtypes) and random ncon/einsum networks are executed on yastn and on an independent dense model; after every step values '
             '(==, integer data), charge, signatures, fusion histories and the three observers are compared. Sampling; no absence proof.',
     'note': 'trusted: the NumPy model in vlib/model.py, unfuse_legs/to_numpy(legs=) as observation channel (checked by C03), '
             'integer exactness of IEEE doubles; one open known finding (to_nonsymmetric of an empty tensor)'},
    {'id': 'C02',
     'technique': 'Hypothesis-generated operation sequences with an independent well-formedness validator and charge model after every step',
     'text': 'Programs of 3-12 public operations incl. factorisations, block, constructors, masks and swap gates; every returned tensor '
             '(and its to_nonsymmetric() image) is validated with is_consistent() and an independent re-derivation of the selection rule, block order, shapes, sizes, '
             'fusion histories and forbidden-sector zeros; the charge of each result is compared with the group-law prediction.',
     'note': 'trusted: the independent group law (table of moduli), public accessors; results of factorisations/block are re-based '
             'before later steps'},
    {'id': 'C03',
     'technique': 'Hypothesis-generated fusion plans, mismatched operand pairs and block plans checked against the dense model, metamorphic fuse/unfuse relations and a rejection oracle',
     'text': 'Random nested fusion forests (depth<=3, hard/meta/mixtures) are built and undone; operand pairs with equal/subset/'
             'superset/overlapping/disjoint sector content are fused identically and contracted/added (pairs and n-ary sums with the mismatched operand in any position)/traced/vdot-ed over fused '
             'legs and compared exactly with the unfused dense computation; incompatibly fused pairs must raise YastnError; '
             'block() identities (norm additivity, steps == once, contraction = sum of parts, unfuse refuses) incl. parts with '
             'hard-fused, differently populated common legs.',
     'note': 'trusted: dense model; yastn legs_union/to_numpy(legs=) for the block contraction comparison'},
    {'id': 'C04',
     'technique': 'Hypothesis-generated tensors, bipartitions and options with gauge-invariant numerical oracles (reconstruction, isometry, ordering, triangularity, charge/leg placement)',
     'text': 'svd/qr/eigh/eig on generated tensors (float and integer data incl. rank-deficient blocks, all symmetries, non-zero charge, '
             'complex, lazily transposed, hard/meta fused) for random ordered bipartitions, sU/sQ, nU, U/V/Q/R axis positions and `which`; '
             'only gauge-invariant clauses are asserted with tolerance 1e-11*||a||; a rejection by eig is accepted only when a dense '
             'eigen-analysis shows a (near-)degenerate or ill-conditioned block.',
     'note': 'trusted: yastn tensordot/transpose/to_numpy for forming U S V and the Gram matrices (covered by C01); NumPy/SciPy linear algebra'},
    {'id': 'C05',
     'technique': 'Hypothesis-generated tensors/networks with an independent parity-sign reference (dense sign tensors, numpy.einsum) and all-orders metamorphic comparison; exhaustive fkron enumeration against Jordan-Wigner matrices',
     'text': 'swap_gate (pair groups and charge= variant) on generated tensors in every fermionic setting equals the dense tensor times '
             'signs computed from sector parities, is an involution and the identity for bosons; ncon/einsum networks (<=4 tensors, swaps on '
             'open/contracted legs, parity-odd tensors) give the same tensor exactly for every admissible contraction order (<=24 sampled) '
             'and equal numpy.einsum with explicit sign matrices; fkron over operator tuples x all sites permutations x application orders '
             'equals JW products; CAR enumerated for N=2,3.',
     'note': 'trusted: parity model (charge mod 2 on flagged components), JW reference in vlib/jw.py; two open known findings on ncon swaps '
             '(traced leg vs other tensor; partial crossing of parallel contracted legs)'},
    {'id': 'C06',
     'technique': 'Hypothesis-generated MPS/MPO expression trees evaluated by yastn and by NumPy on dense leaves (differential against a dense reference model)',
     'text': 'Expression trees (add with amplitudes incl. 0/negative/complex, scalar ops, MPO@MPS, MPO@MPO, conj/transpose/H pairs, '
             'reverse_sites, copies) over random / product / from-tensor leaves for every operator family x symmetry, N=1..6(7), every '
             'admissible total charge, non-unit factors, all tensordot policies; the result, to_tensor, measure_overlap, measure_mpo (single, '
             'sum of MPOs, periodic MPO), vdot dispatch, zipper and converged compression_ are compared with dense vectors/matrices (1e-10).',
     'note': 'trusted: NumPy contraction of site tensors via to_numpy(legs=) and legs_union; default_fusion=meta is not exercised at the '
             'MPS level (the MPS layer rejects meta-fused virtual legs, as the repository suite shows); conjugated/transposed objects are '
             'combined only in signature-neutral pairs because conj()/T change leg signatures'},
    {'id': 'C07',
     'technique': 'exhaustive on-site algebra + Hypothesis-generated Hterm lists, grammar-generated LaTeX strings and measurement requests compared with an independent dense Jordan-Wigner reference',
     'text': 'On-site (anti)commutation / su(2) relations and named eigenvectors of every operator family x symmetry are enumerated; '
             'generate_mpo (operators in any order, repeated sites, charged terms with a common charge, complex amplitudes, f_map, three '
             'forms of I; unequal charges must raise) and Generator.mpo_from_latex (documented forms, custom site maps) equal the sum of '
             'NumPy JW products; measure_1site/2site (all bond strings, explicit bonds, dict operators)/nsite, rdm (any site order, against '
             'fkron traces and partial traces) and sample probabilities (computational basis; complex rotated local bases without symmetry) equal dense expectation values / Born probabilities on random states of every admissible charge.',
     'note': 'trusted: vlib/jw.py (standard JW convention) and the NumPy MPS contraction; one open known finding on the LaTeX parser scope'},
    {'id': 'C08',
     'technique': 'Hypothesis rule-based state machine over MPS/MPO gauge moves against a dense model + generated binding truncations against an independent sector-wise dense truncation',
     'text': 'Histories of canonize_/orthogonalize_site_/absorb_central_/diagonalize_central_/truncate_ (non-binding) with normalize True/False, '
             'reverse_sites, copies and observers over MPS, MPO and rank-deficient/degenerate direct sums: the dense state (incl. central '
             'block and factor) is unchanged (same direction, no phase freedom, unit norm after normalising sweeps), sweeps leave isometries, '
             'norm/Schmidt values/entropies equal numpy svd. Binding truncate_ on states in the opposite canonical form: returned weight equals '
             'the true relative error (squares to 1e-9, and directly to 1e-10 incl. states with a tail of relative weight 1e-5..3e-9), factor equals kept norm, state equals a sequential largest-weight dense truncation (no-tie cases).',
     'note': 'trusted: NumPy contraction of site tensors; the C13 reference selection for the dense truncation; scalar limits only in the truncation part'},
    {'id': 'C09',
     'technique': 'Hypothesis-generated Hamiltonians, initial states and sweep schedules; DMRG output compared after every sweep with a dense Jordan-Wigner Hamiltonian and its sector spectrum',
     'text': 'Random Hermitian Hamiltonians (hopping incl. complex, densities, interactions, fields) for every family x symmetry, N=2..6, single MPO '
             'or sum of 2-3 MPOs, precompute on/off, random starts of every admissible charge and D, 1site/2site schedules switched through '
             'yastn.Method, default and explicit eigensolver options, binding and non-binding truncation: after each sweep norm 1, canonical, in sector, '
             'energy == <psi|H|psi> (dense), E >= lambda_min(sector), no increase without binding truncation, Heff1/Heff2 identical between H forms. '
             'Full-rank runs to convergence: eigen-residual, E in spectrum; projected runs orthogonal, E >= next level and in spectrum.',
     'note': 'trusted: dense H from vlib/jw.py, numpy eigvalsh; eigenstate clauses only for runs reporting convergence and gaps >= 1e-3; reaching exactly '
             'the next level under projection is labelled, not required (1-site sweeps may stall on a higher eigenstate)'},
    {'id': 'C10',
     'technique': 'Hypothesis-generated Hamiltonians, initial states, time grids and option combinations; TDVP snapshots compared with scipy.linalg.expm of a dense Jordan-Wigner Hamiltonian, conservation laws on small-D states, convergence-order probe against a 4th-order Magnus reference',
     'text': 'Saturated states (mps_from_tensor of random sector vectors, any gauge / factor) for every family x symmetry, N=2..6, every admissible '
             'charge, 1site/2site/12site, 2nd/4th order, real/imaginary/complex u, single MPO or sum, precompute, normalize, subtract_E, yield_initial, '
             'grids with dt not dividing the interval: TDVP_out bookkeeping (ti, tf, dt, minimal steps), sector, canonical form, and the dense state '
             'equals expm(-u t H) psi0 to 1e-9 whenever every bond has a complete Schmidt basis on one side (the case in which the splitting '
             'integrator is exact); otherwise the deviation must shrink at the stated order. Small-D real-time runs conserve norm and energy to 1e-8. '
             'Time-dependent H(t): error against a fine Magnus reference shrinks by >= 2^(p-1/2) per halving of the actual step, refined through dt '
             '(also dt not dividing the interval) or through the snapshot grid with dt larger than the spacing; non-convergence is reported.',
     'note': 'trusted: dense H from vlib/jw.py, scipy expm; the exactness clause is restricted by a computed completeness predicate because the '
             'projector-splitting integrator has an O(dt^p) splitting error on symmetric sectors whose bonds are left-complete in one charge block and '
             'right-complete in another; order clause is asymptotic and probed at 2-3 step sizes inside an error window'},
    {'id': 'C11',
     'technique': 'Hypothesis-generated gate parameters, finite-PEPS circuits and two-layer tensors compared with an independent dense Jordan-Wigner state-vector simulation (scipy.linalg.expm) and with the explicitly fused two-layer tensor',
     'text': 'Every gate constructor x every family/symmetry that supports it x real/imaginary/complex steps: the operator rebuilt from Gate.G equals '
             'expm(-step H). Circuits on open lattices and cylinders (<= 6 sites, dense dimension <= 1024): product states of any occupation or identity '
             'purification, then 1-5 gates (local, nearest-neighbour in all four orientations incl. the cylinder seam, two-site gates along paths, '
             '2-3 site MPO gates incl. scaled MPOs along bent paths): to_tensor() after every gate equals the dense gate applied to the previous '
             'dense state (error relative to |G||v| <= 1e-10). DoublePepsTensor (all symmetries/fermionic flags, operator, charge swaps, 8 '
             'transpositions): lazy tensordot over each neighbouring leg pair in both argument orders == tensordot with fuse_layers(). fpeps.add '
             'of 1-3 circuit states with amplitudes == linear combination of dense states.',
     'note': 'trusted: vlib/jw.py, the fermionic order (column by column) and the to_tensor() sign convention (system legs before ancilla legs) stated in '
             'vlib/pepsgen.py; to_tensor is the observer (cross-checked on product states here and against environments in C12); Heisenberg gate is '
             'compared with J S.S (the code), not with the factor 2 printed in its docstring'},
    {'id': 'C12',
     'technique': 'Hypothesis-generated circuit states, environments and measurement requests compared with expectation values on the dense Jordan-Wigner state; generated PEPS/bond/cluster for metric validity; generated evolution steps against dense evolution',
     'text': 'States from generated shallow circuits on open lattices (chains, 2x2, 2x3, 3x2; 3x3 thorough), pure and purified, every family x symmetry. '
             'EnvBoundaryMPS (non-binding D_total, discarded weights < 1e-12, every setup), EnvCTM(eye/dl) after max(Nx,Ny)+1 outward expansions, EnvBP on '
             'chains: measure_1site, measure_nn, measure_2site (pairs/dirn variants, full lattice and windows), measure_nsite, measure_2x2, measure_line of identity, neutral and '
             'fermionic charged operators == <psi|O|psi>/<psi|psi> (1e-8). EnvNTU.bond_metric for all six cluster types on finite/infinite/checkerboard/'
             'cylinder PEPS after the QR reduction of truncate_: Hermitian and PSD to 1e-9. evolution_step_ (NTU variants, BP; methods mpo/NN; local, '
             'nn, path and MPO gates) with non-binding truncation == dense evolution up to a scalar, truncation_error <= 1e-6, metric diagnostics clean.',
     'note': 'trusted: vlib/jw.py and to_tensor() as the dense state (C11); CTM-based evolution is not exercised (needs post-truncation options outside the property); '
             'BP only on loop-free lattices; infinite-lattice measurements are outside the claim'},
    {'id': 'C13',
     'technique': 'Hypothesis-generated spectra and limit combinations checked with a validity predicate derived from the documented two-stage rule; error identity on generated factorisations',
     'text': 'Diagonal spectra with ties, zeros, one-element sectors over 1-5 sectors and every combination of D_total, D_block (scalar/dict), '
             'tol, tol_block (scalar/dict): the mask must respect each limit, keep a top prefix per sector and the largest-weight multiset '
             'overall (ties free); svd_/eigh_with_truncation: kept values valid, ||a-USV|| == ||discarded||, non-binding limits discard nothing.',
     'note': 'trusted: the two-stage reference selection in checks/c13_truncation.py (same floating comparisons as documented); '
             'truncate_multiplets, mask_f and which in (SM, SR) are outside the claim'},
    {'id': 'C14',
     'technique': 'differential execution of Hypothesis-generated programs under pairs of configurations (policy / fusion mode / lazy vs eager) and metamorphic comparison of unrolled contractions with ncon and dense einsum',
     'text': 'Generated programs (contractions, fusions, transposes, sums, traces, masks, swap gates, at most one factorisation) run under two '
             'environments differing only in tensordot_policy, default_fusion/force_fusion or insertion of consume_transpose()/copy(); legs, '
             'charge, dense values, a[key] access and to_raw_tensor agree after every step (after full unfusion for fusion-mode pairs). '
             'contract_with_unroll(_compute_constants) on 2-4 tensor networks for optimiser and random connected paths and per-sector / '
             'uniform-size / hand-drawn intra-sector slicings of contracted and output labels equals ncon and the dense einsum exactly.',
     'note': 'trusted: integer exactness; to_numpy as observer; random paths are restricted to connected pairs (outer-product-first paths '
             'cannot be expressed through ncon labels); one open known finding (empty constant sub-network)'},
    {'id': 'C15',
     'technique': 'Hypothesis-generated programs over the public operation catalogue with byte-level snapshots of every live object before and after every call; mutation of copies/sources through the in-place API',
     'text': 'Programs over the tensor catalogue (algebra, fusion, factorisations, block, constructors, masks, swap gates + 30 observer/'
             'utility calls) snapshot every pool tensor (to_dict(level=2) + raw data bytes) before and after each call, also when it raises; '
             'copy/clone/from_dict/split-combine results stay unchanged when the source is modified through set_block / item assignment '
             '(and vice versa), shallow views keep their own structure. MPS/MPO: 35 non-in-place calls (algebra, measurements, environments, zipper, '
             'compression of a copy ...) with snapshots of every argument; copy/clone/shallow_copy of MPS, MPO, Peps, Peps2Layers, Lattice, '
             'DoublePepsTensor, EnvCTM, EnvBP, EnvBoundaryMPS modified through item/block assignment and methods ending in _ in either direction; '
             'PEPS observers (to_tensor, transfer_mpo, environments, measurements) leave the Peps unchanged.',
     'note': 'trusted: to_dict(level=2) and .data as the snapshot; numpy.shares_memory for the non-triviality label'},
    {'id': 'C16',
     'technique': 'Hypothesis-generated interleaved histories of twin programs with cache operations; differential run against undecorated functions plus a per-call audit wrapper (recomputation and insertion digests)',
     'text': 'The same operation sequence is re-created block by block under 2-3 symmetry groups / fermionic flags (identical struct and slices) '
             'and interleaved step by step with clear_cache() and set_cache_maxsize(0/1/2/1024); every outcome equals the run in which every '
             'memoised function (found by scanning yastn.* for cache_info/__wrapped__, all aliases re-bound) is replaced by its undecorated '
             'version; every call of a memoised function is compared with a fresh recomputation and with the digest recorded at first '
             'insertion; a second interleaving gives identical per-program results.',
     'note': 'trusted: to_dict(level=2) as the bit-level observer; Python == / hash semantics of lru_cache keys (0.0 == -0.0 == 0); cache statistics are not asserted'},
    {'id': 'C17',
     'technique': 'Hypothesis-generated tensor programs / MPS / PEPS objects sent through generated serialisation routes (round-trip oracle against the original object and the independent dense model; linearity/norm and rejection oracles for meta)',
     'text': 'Every pool tensor of generated programs (diag, hard/meta fused, lazily transposed, empty, complex, rank 0, blocked) goes through '
             'to_dict level 0/1/2 (resolve_ops, split/combine, numpy.save/load, dict_ver 1 form, Tensor.from_dict / yastn.from_dict with and without '
             'config), HDF5 and the legacy save_to_dict/load_from_dict; the restored tensor equals the original in legs incl. histories, n, s, dtype, '
             'config knobs, values (bitwise), follow-up transpose/unfuse/contraction, and agrees with the NumPy model; the original is unchanged. '
             'to_dict(meta=) vectors: length, norm, linearity, round trip, 8 rejection classes. MPS/MPO (central block, factor) and Peps / '
             'Peps2Layers / DoublePepsTensor / Lattice / EnvCTM / EnvBP / EnvBoundaryMPS / EnvCTM_c4v on 14 geometries of every lattice type.',
     'note': 'trusted: vlib/model.py and public observers; HDF5 through an in-memory h5py file (core driver); numpy.save only for level >= 1 '
             '(level 0 keeps the config module by design); torch backend not available'},
    {'id': 'C18',
     'technique': 'Hypothesis-generated linear maps (random zero-charge tensors acting on symmetric vectors), start vectors and solver options; results compared with scipy.linalg.expm / numpy eigensolvers / dense residuals on the sector matrix of the map',
     'text': 'Maps f(x) = M.x (+ shift) for random (non-)Hermitian M on rank 1-3 vectors of every symmetry and charge (sector dimension up to ~100), '
             'random / (exactly and numerically) invariant / single-block / zero start vectors. expmv: |w - expm(tF)v| <= (10 tol + 1e-11) x amplification for '
             'real, imaginary and complex t with |t| ||F|| from 0 to 250, tol 1e-5..1e-12, ncv 1..40, both hermitian flags, normalize on/off, info fields '
             '(krylov_steps == calls of f). eigs: exact residual / selection / ordering once ncv reaches the reachable dimension, Rayleigh identity, '
             'spectral bounds, interlacing and variational bound otherwise (Hermitian). lin_solver: reported == true residual, <= initial residual, '
             'solved when the Krylov space is exhausted. Results stay in the sector.',
     'note': 'trusted: dense matrix of the map from M.to_numpy(); exactness clauses of eigs are applied only while a NumPy simulation of the documented '
             'algorithm keeps the Krylov basis orthonormal to 1e-10 (classical Gram-Schmidt loses orthogonality like eps*cond^2); expmv cases with '
             'amplification > 1e4 are skipped; hermitian=True with |t| ||F|| >= 100 is excluded (open known finding, reproduced from a committed replay); svds is outside the property'},
    {'id': 'C19',
     'technique': 'exhaustive enumeration of the group law against an independent table + Hypothesis search over Leg arguments',
     'text': 'Every fuse()/add_charges() row in the stated charge box (complete for Z2/Z3 factors, |t|<=B for U(1)) for '
             'every shipped symmetry, m<=3(4) summands, all signature vectors and new_signature is compared with an '
             'independent group law and the abelian-group axioms; Leg acceptance is compared with a validity model on '
             'generated arguments in and just outside the domain. Exhaustive inside the box, sampling for Leg.',
     'note': 'trusted: the table of moduli per symmetry (from the docs), NumPy integer arithmetic; U(1) charges outside '
             'the box are not enumerated'},
    {'id': 'C20',
     'technique': 'exhaustive enumeration of lattices and label patterns against a modular-arithmetic model + Hypothesis rule-based state machine for the container',
     'text': 'All SquareLattice dims<=5x5 x 3 boundaries, Checkerboard, Triangular (default, full_patch infinite/obc <=4x4) and every '
             'RectangularUnitcell label matrix with <=8 (quick) / <=10 (thorough) cells over 4 labels are enumerated; each accepted '
             'geometry is audited over a +-2 cell window, 8 directions and 49 shifts against an independent model (nn_site, inverse, '
             'bonds, classes, site2index partition, f_ordered); acceptance is compared with the single-neighbourhood model. Larger '
             'patterns and Lattice/Peps histories (set, patch, apply, shallow_copy, constructors) are sampled with Hypothesis.',
     'note': 'trusted: the tiling model written from the docstrings; window and shift bounds; the cylinder seam bonds are an open '
             'known finding (by design lattice- but not fermionically ordered)'},
]

_ALL = [f'C{i:02d}' for i in range(1, 21)]
_PENDING_REASON = 'not claimed yet: the generated check for this property is still under construction in this round'
NOT_APPLICABLE = [{'property_id': p, 'reason': _PENDING_REASON} for p in _ALL if p not in {c['id'] for c in CHECKS}]

for e in ENGINES:
    if not e['serves_properties']:
        e['serves_properties'] = [c['id'] for c in CHECKS]
