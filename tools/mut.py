#!/venv/bin/python
"""Sensitivity helper: run a check against a scratch copy of /repo/yastn with one textual mutation.

usage: tools/mut.py <Cxx[,Cyy]> <relative file under /repo> <old> <new> [--count N] [--tier quick]
       tools/mut.py <Cxx> --patch file.diff
The scratch copy lives under /tmp and is removed afterwards. Exit 0 when (every) check FAILED (mutation detected).
"""
import os, shutil, subprocess, sys, tempfile

def main():
    args = sys.argv[1:]
    props = args[0].split(',')
    tier = 'quick'
    if '--tier' in args:
        i = args.index('--tier'); tier = args[i + 1]; del args[i:i + 2]
    d = tempfile.mkdtemp(prefix='yastn_mut_')
    try:
        shutil.copytree('/repo/yastn', os.path.join(d, 'yastn'), ignore=shutil.ignore_patterns('__pycache__'))
        if args[1] == '--patch':
            subprocess.run(['patch', '-p1', '-d', d, '-i', os.path.abspath(args[2])], check=True, stdout=subprocess.DEVNULL)
        else:
            rel, old, new = args[1], args[2], args[3]
            cnt = 1
            if '--count' in args:
                cnt = int(args[args.index('--count') + 1])
            p = os.path.join(d, rel)
            s = open(p).read()
            if s.count(old) != cnt:
                print(f'MUT-ERROR: {old!r} occurs {s.count(old)} times in {rel}, expected {cnt}')
                return 3
            open(p, 'w').write(s.replace(old, new))
        env = dict(os.environ, VERIF_REPO=d, VERIF_NO_EVIDENCE='1')
        ok = True
        for prop in props:
            r = subprocess.run([os.path.join(os.path.dirname(os.path.abspath(__file__)), '..', 'run_check.py'), prop, '--tier', tier],
                               env=env, capture_output=True, text=True)
            lines = [l for l in r.stdout.splitlines() if l.startswith(('VIOLATION', '  key=', prop))]
            print(f'[{prop}] exit={r.returncode}')
            for l in lines[:8]:
                print('   ', l[:260])
            if r.returncode == 2:
                print(r.stderr[-1500:])
            ok = ok and r.returncode == 1
        print('DETECTED' if ok else 'MISSED')
        return 0 if ok else 1
    finally:
        shutil.rmtree(d, ignore_errors=True)

sys.exit(main())
