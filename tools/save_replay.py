#!/venv/bin/python
"""Copy a replay written under out/replays into the committed regression corpus: tools/save_replay.py <file> <name>"""
import json, os, shutil, sys
src, name = sys.argv[1], sys.argv[2]
d = json.load(open(src))
dst_dir = os.path.join(os.path.dirname(os.path.abspath(__file__)), '..', 'replays', d['property'])
os.makedirs(dst_dir, exist_ok=True)
dst = os.path.join(dst_dir, name + '.json')
json.dump(d, open(dst, 'w'), indent=1)
print('saved', dst, 'key', d['key'])
