#!/venv/bin/python
"""Evaluate a seeded change produced by a sub-agent: tools/seed_eval.py <Cxx> [worktree] [--checks C01,C02] [--name Cxx_r2]
Copies <worktree>/SEED/{patch.diff,demo.py,meta.json} to /verif/seeded/<id>/, applies the patch to a scratch copy of /repo/yastn
(outside /repo and /verif), confirms the demonstration, runs the quick check(s) against the scratch copy (VERIF_REPO) and writes result.json."""
import json, os, shutil, subprocess, sys, tempfile, time
V = os.path.dirname(os.path.dirname(os.path.abspath(__file__)))
pid = sys.argv[1]
wt = sys.argv[2] if len(sys.argv) > 2 and not sys.argv[2].startswith('--') else f'/tmp/seed_{pid}'
checks = [pid]
if '--checks' in sys.argv:
    checks = sys.argv[sys.argv.index('--checks') + 1].split(',')
name = sys.argv[sys.argv.index('--name') + 1] if '--name' in sys.argv else pid
dst = os.path.join(V, 'seeded', name)
os.makedirs(dst, exist_ok=True)
for f in ('patch.diff', 'demo.py', 'meta.json'):
    src = os.path.join(wt, 'SEED', f)
    if os.path.exists(src):
        shutil.copy(src, os.path.join(dst, f))
patch = os.path.join(dst, 'patch.diff')
d = tempfile.mkdtemp(prefix='yastn_seed_')
res = {'property': pid, 'checks': {}}
try:
    shutil.copytree('/repo/yastn', os.path.join(d, 'yastn'), ignore=shutil.ignore_patterns('__pycache__'))
    r = subprocess.run(['patch', '-p1', '-d', d, '-i', patch], capture_output=True, text=True)
    res['patch_applies_to_current_repo'] = r.returncode == 0
    if r.returncode != 0:
        print('PATCH FAILED', r.stdout[-500:], r.stderr[-500:])
    env = dict(os.environ, PYTHONPATH=d)
    r = subprocess.run(['/venv/bin/python', os.path.join(dst, 'demo.py')], cwd=d, env=env, capture_output=True, text=True, timeout=1800)
    res['demo_on_patched'] = {'exit': r.returncode, 'last_line': (r.stdout.strip().splitlines() or [''])[-1][:300]}
    r0 = subprocess.run(['/venv/bin/python', os.path.join(dst, 'demo.py')], cwd='/repo', env=dict(os.environ, PYTHONPATH='/repo'), capture_output=True, text=True, timeout=1800)
    res['demo_on_unchanged'] = {'exit': r0.returncode, 'last_line': (r0.stdout.strip().splitlines() or [''])[-1][:300]}
    for c in checks:
        t0 = time.time()
        rr = subprocess.run([os.path.join(V, 'run_check.py'), c, '--tier', 'quick'], env=dict(os.environ, VERIF_REPO=d, VERIF_NO_EVIDENCE='1'), capture_output=True, text=True)
        keys = [l.strip()[:200] for l in rr.stdout.splitlines() if l.strip().startswith('key=')]
        res['checks'][c] = {'exit': rr.returncode, 'detected': rr.returncode == 1, 'keys': keys[:6], 'wall_s': round(time.time() - t0, 1)}
finally:
    shutil.rmtree(d, ignore_errors=True)
json.dump(res, open(os.path.join(dst, 'result.json'), 'w'), indent=1)
print(json.dumps(res, indent=1))
