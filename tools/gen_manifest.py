#!/venv/bin/python
"""Regenerate MANIFEST.json from tools/manifest_src.py (single source of truth for registered checks)."""
import json, os, sys
HERE = os.path.dirname(os.path.abspath(__file__))
sys.path.insert(0, HERE)
import manifest_src as m
checks = []
for c in m.CHECKS:
    pid = c['id']
    checks.append({
        'property_id': pid,
        'quick_cmd': f'cd /verif && /venv/bin/python run_check.py {pid} --tier quick',
        'thorough_cmd': f'cd /verif && /venv/bin/python run_check.py {pid} --tier thorough',
        'evidence_file': f'/verif/evidence/{pid}.json',
        'replay_cmd_template': f'cd /verif && /venv/bin/python run_check.py {pid} --replay {{path}}',
        'engine': c.get('engine', 'hypothesis-descriptor-search'),
        'level_claimed': {'category': 'exploration', 'text': c['text'], 'design_ref': f'DESIGN.md section 2, {pid}'},
        'level_note': c['note'],
        'technique': c['technique'],
    })
man = {
    'version': 1,
    'setup_cmd': m.SETUP,
    'hooks': m.HOOKS,
    'engines': m.ENGINES,
    'checks': checks,
    'notes': m.NOTES,
    'not_applicable': m.NOT_APPLICABLE,
}
with open(os.path.join(HERE, '..', 'MANIFEST.json'), 'w') as f:
    json.dump(man, f, indent=1)
print('wrote MANIFEST.json with', len(checks), 'checks;', len(m.NOT_APPLICABLE), 'not_applicable')
