"""C12 - Exact PEPS environments give exact expectation values and valid metrics.

Part 'measure' : finite open PEPS (chains, 2x2, 2x3, 3x2; 3x3 in the thorough tier) prepared by generated shallow circuits (vlib/pepsgen.py) from
                 product states or the identity purification, for every operator family x symmetry.  Environments contracted without binding
                 truncation: EnvBoundaryMPS (D_total = 256; only if the reported discarded weights are < 1e-12), EnvCTM(init='eye' / 'dl') after
                 max(Nx, Ny) + 1 calls of expand_outward_(), EnvBP iterated to convergence on loop-free lattices (chains).  measure_1site,
                 measure_nn, measure_2site (pairs / dirn variants), measure_nsite, measure_2x2, measure_line of identity, neutral and charged
                 (fermionic) operators are compared with <psi|O|psi>/<psi|psi> on the dense state (Jordan-Wigner reference).
Part 'metric'  : EnvNTU.bond_metric for every cluster type on generated finite and infinite PEPS after the QR reduction used by evolution_step_:
                 Hermitian and positive semi-definite to round-off.
Part 'evolve'  : evolution_step_ with NTU / BP / CTM environments and truncation that does not bind (D_total large, tol 0): the state equals the
                 exactly evolved dense state up to normalisation, reported truncation_error at round-off level.
"""
import numpy as np

from vlib import common as C
from vlib import mpsgen as G
from vlib import jw as JW
from vlib import pepsgen as PG
from vlib import program as P
from vlib.common import yastn, YastnError
from vlib.runner import HypPart, Res, Violation, Reject
import yastn.tn.fpeps as fpeps

ID = 'C12'
RULE = ("One case = one circuit state, one environment type and a list of measurements (measure); one PEPS, bond and cluster type (metric); one "
        "state, gate layer and environment (evolve). Non-trivial: entangled state (>= 1 two-site gate) with a fermionic charged operator pair or an "
        "operator pair on sites not adjacent in the fermionic order; metric with bond dimension >= 2 on both sides; evolution with >= 1 two-site gate. "
        "Distinct by SHA-1 of the descriptor.")
ASSUMPTIONS = ["dense reference: <v|O|v>/<v|v> with O from vlib/jw.py and v = to_tensor() (checked against dense gates in C11)",
               "boundary MPS compared only when every reported discarded weight is < 1e-12; CTM after max(Nx,Ny)+1 outward expansions; BP only on chains",
               "tolerances: expectation values 1e-8 (1e-6 when the product of the gates' condition numbers exceeds 1e4; absolute, operators of norm <= 2), metric hermiticity / positivity 1e-9 relative, evolution: direction 1e-7, reported truncation_error <= 1e-4 (round-off of the metric-based error is ~1e-6)"]

FAMS = [i for i, (nm, kw) in enumerate(G.FAMILIES) if nm != 'Qdit']
LATS_Q = [[1, 2, 'obc'], [2, 1, 'obc'], [1, 3, 'obc'], [3, 1, 'obc'], [2, 2, 'obc'], [2, 3, 'obc'], [3, 2, 'obc'], [1, 4, 'obc'], [4, 1, 'obc']]


def op_catalogue(fam):
    """(neutral one-site operators, operator pairs with neutral product)."""
    name, kw = G.FAMILIES[fam]
    sym = kw['sym']
    one, pairs = ['I'], []
    for cp, c, n in PG.species(name):
        one.append(n)
        pairs += [(cp, c), (c, cp), (n, n)]
    if len(PG.species(name)) == 2:
        pairs += [('nu', 'nd'), ('cpu*cd', 'cpd*cu')]
    if name in ('Spin12', 'Spin1'):
        one.append('sz')
        pairs += [('sp', 'sm'), ('sz', 'sz'), ('sm', 'sp')]
        if name == 'Spin12' and sym in ('dense', 'Z2'):
            pairs.append(('x', 'x'))
        if name == 'Spin12' and sym == 'dense':
            one.append('x')
    return one, pairs


def draw_measure(data, tier):
    from hypothesis import strategies as st
    fam = data.draw(st.sampled_from(FAMS + [i for i in FAMS if PG.species(G.FAMILIES[i][0])]))      # fermions twice as often
    ops, sp, named = G.family(fam)
    lats = [l for l in LATS_Q + [[2, 2, 'obc'], [2, 3, 'obc'], [3, 2, 'obc'], [3, 3, 'obc']] if sp.d ** (l[0] * l[1]) <= 1024]     # (3x3 for d = 2 only)
    lats = lats + [l for l in lats if min(l[0], l[1]) > 1]        # two-dimensional lattices twice as often as chains
    lat = data.draw(st.sampled_from(lats))
    N = lat[0] * lat[1]
    purification = P.chance(data, 1, 5) and sp.d ** (2 * N) <= 5000
    occ = [data.draw(st.integers(0, sp.d - 1)) for _ in range(N)]
    if P.chance(data, 1, 2):
        gates = PG.draw_circuit(data, fam, lat, tier, max_gates=4, kinds=('nn', 'nn', 'nn', 'local'))
    else:
        # a layer: at most one gate per bond (bond dimensions stay small) on most bonds - states entangled across the whole lattice
        gates = []
        idx_ = PG.index_of(lat)
        for a, b in PG.neighbours(lat):
            if idx_[a] < idx_[b] and not P.chance(data, 1, 4):
                g = PG.draw_gate_spec(data, fam, tier, local=False)
                g['sites'] = [list(a), list(b)] if data.draw(st.booleans()) else [list(b), list(a)]
                gates.append(g)
    chain = min(lat[0], lat[1]) == 1
    env = data.draw(st.sampled_from(['mps', 'ctm', 'mps', 'ctm'] + (['bp'] if chain else [])))
    one, pairs = op_catalogue(fam)
    sites = PG.sites_of(lat)
    ms = []
    for _ in range(data.draw(st.integers(4, 8))):
        kind = data.draw(st.sampled_from(['2site', 'nsite', 'nn', '1site', '2site', 'nsite', '2x2', 'line', 'nn', '2site']))
        m = {'kind': kind}
        if kind == '1site':
            m.update({'op': data.draw(st.sampled_from(one)), 'site': data.draw(st.sampled_from([None] + [list(s) for s in sites]))})
        elif kind in ('nn', '2site'):
            m['ops'] = list(data.draw(st.sampled_from(pairs)))
            if kind == 'nn':
                m['bond'] = data.draw(st.sampled_from([None] + [[list(a), list(b)] for a, b in PG.neighbours(lat)]))
            else:
                m.update({'pairs': data.draw(st.sampled_from(['corner <=', 'corner <', '<', '<', '<=', 'row <'])), 'dirn': data.draw(st.sampled_from(['v', 'h']))})
                if P.chance(data, 1, 2):      # a window that need not reach the lattice edges
                    x0 = data.draw(st.integers(0, lat[0] - 1))
                    y0 = data.draw(st.integers(0, lat[1] - 1))
                    m['xrange'] = [x0, data.draw(st.integers(x0 + 1, lat[0]))]
                    m['yrange'] = [y0, data.draw(st.integers(y0 + 1, lat[1]))]
                    if lat[0] > 1 and lat[1] > 1 and P.chance(data, 1, 2):
                        # several rows, stopping one column short of the right (or one row short of the bottom) edge: the operator string
                        # has to leave and re-enter the window through a non-trivial virtual leg
                        m['xrange'], m['yrange'] = ([0, lat[0]], [0, lat[1] - 1]) if m['dirn'] == 'h' else ([0, lat[0] - 1], [0, lat[1]])
                        m['pairs'] = data.draw(st.sampled_from(['<', '<=', 'corner <']))
        else:
            k = data.draw(st.sampled_from([2, 3, 2, 4]))
            pr = list(data.draw(st.sampled_from(pairs)))
            names = pr + [data.draw(st.sampled_from(one)) for _ in range(k - 2)]
            names = list(data.draw(st.permutations(names)))
            m['ops'] = names
            m['sites'] = [list(data.draw(st.sampled_from(sites))) for _ in names]
        ms.append(m)
    return {'fam': fam, 'lat': lat, 'occ': occ, 'purification': purification, 'gates': gates, 'env': env, 'init': data.draw(st.sampled_from(['eye', 'dl'])),
            'setup': data.draw(st.sampled_from(['lrtb', 'lr', 'tb', 'lrtb'])), 'measurements': ms}


def expect(v, O):
    """<v|O|v>/<v|v> for a (d^N, A) array (ancilla columns are traced)."""
    return np.vdot(v, O @ v) / np.vdot(v, v)


def max_bond(psi):
    bd = psi.get_bond_dimensions()
    return max([max(v) if hasattr(v, '__iter__') else v for v in bd.values()] + [1])


def build_env(kind, psi, lat, desc):
    if kind == 'mps':
        env = fpeps.EnvBoundaryMPS(psi, opts_svd={'D_total': 256, 'tol': 1e-15}, setup=desc['setup'])
        disc = max([float(i.get('discarded', 0)) for i in env.info.values()] + [0.0])
        return env, disc
    if kind == 'ctm':
        if max_bond(psi) ** (2 * max(lat[0], lat[1])) > 4096:
            raise Reject('bond_dimension_too_large_for_exact_ctm')      # the exactly expanded corners have dimension D^(2 k)
        env = fpeps.EnvCTM(psi, init=desc['init'])
        for _ in range(max(lat[0], lat[1]) + 1):
            env.expand_outward_()
        return env, 0.0
    env = fpeps.EnvBP(psi, init='eye')
    env.iterate_(max_sweeps=4 * lat[0] * lat[1] + 4, diff_tol=1e-13)
    return env, 0.0


def execute_measure(desc):
    from checks import c11_peps_gates as c11
    fam, lat = desc['fam'], desc['lat']
    ops, sp, named = G.family(fam)
    psi, v, labels, nt0 = c11.run_circuit(desc, check=False)
    if np.linalg.norm(v) < 1e-8:
        raise Reject('state_annihilated')
    if max_bond(psi) > 32:
        raise Reject('bond_dimension_too_large')     # apply_gate_ does not truncate: repeated gates on one bond multiply its dimension
    idx = PG.index_of(lat)
    N = len(idx)
    kind = desc['env']
    fallback = []
    if kind == 'ctm' and max_bond(psi) ** (2 * max(lat[0], lat[1])) > 4096:
        # the exactly expanded corners would have dimension D^(2 k): measure the same state with boundary MPS instead of discarding the case
        kind, fallback = 'mps', ['ctm_too_large:measured_with_boundary_mps']
    labels = [l for l in labels if l.startswith(('family', 'lattice', 'pur'))] + ['env:' + kind] + fallback
    entangled = any(len(g['sites']) > 1 for g in desc['gates'])
    try:
        env, disc = build_env(kind, psi, lat, desc)
    except MemoryError:
        raise Reject('environment_too_large')
    except YastnError as e:
        raise Violation(f'measure:{kind}:setup_raises', str(e))
    if disc > 1e-12:
        return Res(labels=labels + ['skipped_truncated'], nontrivial=False)
    op = lambda nm: PG.resolve_op(named, nm)
    fermionic = bool(np.any(sp.ferm)) if not isinstance(sp.ferm, bool) else sp.ferm
    nt = False
    # strongly non-unitary circuits (e.g. exp(-1.0 H) with |H| ~ 10, twice) give states with a huge dynamic range: the variationally
    # compressed boundaries are then accurate to ~1e-7 only
    cond = 1.0
    for g in desc['gates']:
        if len(g['sites']) == 2:
            sv = np.linalg.svd(PG.dense_gate(g, fam, [1, 2, 'obc'], [(0, 0), (0, 1)]), compute_uv=False)
            cond *= sv[0] / max(sv[-1], 1e-300)
    tol = 1e-8 if cond <= 1e4 else 1e-6
    labels.append('circuit_cond<=1e4' if cond <= 1e4 else 'circuit_cond>1e4:tol_1e-6')

    def cmp(val, names, sites, what):
        ref = expect(v, JW.jw_product(sp, [op(nm) for nm in names], [idx[tuple(s)] for s in sites], N))
        if abs(complex(val) - ref) > tol:
            sign = abs(complex(val) + ref) <= tol
            raise Violation(f'measure:{kind}:{what}' + (':sign' if sign else ''),
                            f'{what}({", ".join(names)}) on {[tuple(s) for s in sites]}: {complex(val):.10f}, dense reference {ref:.10f}')

    for m in desc['measurements']:
        k = m['kind']
        try:
            if k == '1site':
                if kind == 'mps' and not set('lr') <= set(desc['setup']):
                    continue
                site = None if m['site'] is None else tuple(m['site'])
                out = env.measure_1site(op(m['op']), site=site)
                if site is None:
                    if not isinstance(out, dict):
                        out = {PG.sites_of(lat)[0]: out}
                    if sorted(map(tuple, out.keys())) != sorted(PG.sites_of(lat)):
                        raise Violation(f'measure:{kind}:1site_keys', f'keys {sorted(out.keys())}')
                    for s, val in out.items():
                        cmp(val, [m['op']], [tuple(s)], 'measure_1site')
                else:
                    cmp(out, [m['op']], [site], 'measure_1site')
                labels.append('1site')
            elif k == 'nn':
                a, b = m['ops']
                if kind == 'mps':
                    if not set('lrtb') <= set(desc['setup']):
                        continue
                    out = env.measure_nn(op(a), op(b))
                elif m['bond'] is None:
                    out = env.measure_nn(op(a), op(b))
                else:
                    bond = (tuple(m['bond'][0]), tuple(m['bond'][1]))
                    out = {bond: env.measure_nn(op(a), op(b), bond=bond)}
                if not isinstance(out, dict):
                    raise Violation(f'measure:{kind}:nn_type', f'measure_nn returned {type(out).__name__}')
                for (s0, s1), val in out.items():
                    cmp(val, [a, b], [tuple(s0)[:2], tuple(s1)[:2]], 'measure_nn')
                labels.append('nn:charged' if fermionic and sp.is_odd(op(a).n) else 'nn:neutral')
                nt = nt or (entangled and fermionic and sp.is_odd(op(a).n))
            elif k == '2site':
                if kind == 'bp':
                    continue
                if kind == 'mps' and not set('lrtb') <= set(desc['setup']):
                    continue
                a, b = m['ops']
                win = {'xrange': tuple(m['xrange']), 'yrange': tuple(m['yrange'])} if 'xrange' in m else {}
                out = env.measure_2site(op(a), op(b), pairs=m['pairs'], dirn=m['dirn'], opts_svd={'D_total': 256, 'tol': 1e-15}, **win)
                if win:
                    labels.append('2site:window')
                    for (s0, s1) in out:
                        if not all(win['xrange'][0] <= s_[0] < win['xrange'][1] and win['yrange'][0] <= s_[1] < win['yrange'][1] for s_ in (tuple(s0)[:2], tuple(s1)[:2])):
                            raise Violation(f'measure:{kind}:measure_2site_window', f'pair {(s0, s1)} outside the window {win}')
                for (s0, s1), val in out.items():
                    s0, s1 = tuple(s0)[:2], tuple(s1)[:2]
                    if s0 == s1:
                        ref = expect(v, JW.jw_single(sp, op(a) @ op(b), idx[s0], N))
                        if abs(complex(val) - ref) > tol:
                            raise Violation(f'measure:{kind}:measure_2site_same_site', f'<{a} {b}> on {s0}: {complex(val):.10f}, dense reference {ref:.10f}')
                    else:
                        cmp(val, [a, b], [s0, s1], 'measure_2site')
                        if abs(idx[s0] - idx[s1]) > 1 and fermionic and sp.is_odd(op(a).n) and entangled:
                            nt = True
                labels.append('2site:' + m['pairs'].replace(' ', '_') + ':' + m['dirn'])
            else:
                if kind == 'bp':
                    continue
                if kind == 'mps' and not set('lr') <= set(desc['setup']):
                    continue
                names, sites = m['ops'], [tuple(s) for s in m['sites']]
                fn = {'nsite': 'measure_nsite', '2x2': 'measure_2x2', 'line': 'measure_line'}[k]
                if kind == 'mps' and k != 'nsite':
                    continue
                if k == '2x2':
                    xs, ys = [s[0] for s in sites], [s[1] for s in sites]
                    if max(xs) - min(xs) > 1 or max(ys) - min(ys) > 1 or lat[0] < 2 or lat[1] < 2:
                        continue
                if k == 'line':
                    if len({s[0] for s in sites}) > 1 and len({s[1] for s in sites}) > 1:
                        continue
                val = getattr(env, fn)(*[op(nm) for nm in names], sites=sites)
                cmp(val, names, sites, fn)
                labels.append(k)
                if entangled and fermionic and any(sp.is_odd(op(nm).n) for nm in names):
                    nt = True
        except YastnError as e:
            raise Violation(f'measure:{kind}:{k}:unexpected_YastnError', f'{m}: {e}')
    return Res(labels=sorted(set(labels)), nontrivial=bool(nt))


# ---- metric -------------------------------------------------------------------------------------------------------------------

WHICH = ['NN', 'NN+', 'NN++', 'NNN', 'NNN+', 'NNN++']
GEOM_M = [[2, 2, 'obc'], [2, 3, 'obc'], [3, 2, 'obc'], [3, 3, 'obc'], [2, 2, 'infinite'], [2, 3, 'infinite'], [3, 3, 'infinite'], 'checkerboard', [1, 3, 'obc'], [3, 1, 'obc'],
          [4, 4, 'obc'], [3, 3, 'cylinder']]


def draw_metric(data, tier):
    from hypothesis import strategies as st
    return {'sym': data.draw(st.sampled_from(['U1', 'Z2', 'dense', 'U1xU1', 'Z2'])), 'fermionic': data.draw(st.booleans()), 'geom': data.draw(st.sampled_from(GEOM_M)),
            'D': data.draw(st.sampled_from([1, 2, 2, 3])), 'seed': data.draw(st.integers(0, 9999)), 'which': data.draw(st.sampled_from(WHICH)),
            'bond': data.draw(st.integers(0, 50)), 'dtype': data.draw(st.sampled_from(['float64', 'complex128'])), 'reverse': data.draw(st.booleans())}


def random_peps(desc):
    config = C.make_config({'sym': desc['sym'], 'fermionic': desc['fermionic'] and desc['sym'] != 'dense'})
    g = desc['geom']
    geom = fpeps.CheckerboardLattice() if g == 'checkerboard' else fpeps.SquareLattice(dims=(g[0], g[1]), boundary=g[2])
    sym = desc['sym']
    if sym == 'dense':
        lv, lp, one = yastn.Leg(config, s=1, D=(desc['D'],)), yastn.Leg(config, s=1, D=(2,)), yastn.Leg(config, s=1, D=(1,))
    else:
        z = tuple(0 for _ in C.MODULI[sym])
        o = tuple(1 for _ in C.MODULI[sym])
        lv = yastn.Leg(config, s=1, t=(z, o), D=(desc['D'], max(1, desc['D'] - 1)))
        lp = yastn.Leg(config, s=1, t=(z, o), D=(1, 1))
        one = yastn.Leg(config, s=1, t=(z,), D=(1,))
    psi = fpeps.Peps(geom)
    C.reseed_backend(desc['seed'])
    for site in geom.sites():
        legs = [lv.conj(), lv, lv, lv.conj(), lp]
        for k, d_ in enumerate('tlbr'):
            if geom.nn_site(site, d=d_) is None:
                legs[k] = one.conj() if k in (0, 3) else one
        psi[site] = yastn.rand(config, legs=legs, dtype=desc['dtype'])
    return config, geom, psi


def execute_metric(desc):
    config, geom, psi = random_peps(desc)
    bonds = geom.bonds()
    if not bonds:
        raise Reject('no_bonds')
    bond = bonds[desc['bond'] % len(bonds)]
    s0, s1 = bond
    dirn = geom.nn_bond_dirn(s0, s1)
    try:
        env = fpeps.EnvNTU(psi, which=desc['which'])
        # the QR reduction of truncate_ / evolution_step_
        if dirn in ('rl', 'bt'):
            (s0, s1), dirn = (s1, s0), dirn[::-1]
        A0, A1 = psi[s0], psi[s1]
        if dirn == 'lr':
            Q0, R0 = A0.qr(axes=((0, 1, 2, 4), 3), sQ=-1, Qaxis=3)  # t l b rr sa @ rr r
            Q1, R1 = A1.qr(axes=((0, 2, 3, 4), 1), sQ=1, Qaxis=1, Raxis=-1)  # t ll b r sa @ l ll
        else:
            Q0, R0 = A0.qr(axes=((0, 1, 3, 4), 2), sQ=1, Qaxis=2)  # t l bb r sa @ bb b
            Q1, R1 = A1.qr(axes=((1, 2, 3, 4), 0), sQ=-1, Qaxis=0, Raxis=-1)  # tt l b r sa @ t tt
        fgf = env.bond_metric(Q0, Q1, s0, s1, dirn)
    except YastnError as e:
        raise Violation('metric:unexpected_YastnError:' + desc['which'], str(e))
    gs = [fgf.g] if hasattr(fgf, 'g') else [fgf.gL, fgf.gR]
    dim = 0
    for g in gs:
        if not isinstance(g, yastn.Tensor) or g.ndim != 2:
            raise Violation('metric:rank', f'bond metric is {type(g).__name__} of rank {getattr(g, "ndim", None)}')
        nrm = max(float(g.norm()), 1e-300)
        ah = float((g - g.H).norm()) / nrm
        if ah > 1e-9:
            raise Violation('metric:not_hermitian:' + desc['which'], f'|g - g^H| / |g| = {ah:.3e} on bond {(s0, s1)} ({dirn})')
        S, U = ((g + g.H) / 2).eigh(axes=(0, 1))
        w = np.sort(np.asarray(S.to_numpy()).diagonal().real) if S.size else np.array([0.0])
        dim = max(dim, len(w))
        if w[0] < -1e-9 * max(abs(w[-1]), 1e-300):
            raise Violation('metric:not_positive:' + desc['which'], f'lambda_min / lambda_max = {w[0] / w[-1]:.3e} on bond {(s0, s1)} ({dirn})')
        M = g.to_numpy()
        if M.shape[0] == M.shape[1] and g.get_legs(0) == g.get_legs(1).conj():
            wd = np.linalg.eigvalsh((M + M.conj().T) / 2)
            if wd[0] < -1e-9 * max(abs(wd[-1]), 1e-300):
                raise Violation('metric:not_positive_dense:' + desc['which'], f'dense lambda_min / lambda_max = {wd[0] / wd[-1]:.3e}')
    geo = desc['geom'] if isinstance(desc['geom'], str) else '%dx%d:%s' % tuple(desc['geom'])
    return Res(labels=['which:' + desc['which'], 'geometry:' + geo, 'dirn:' + dirn, 'sym:' + desc['sym'], 'fermionic:' + str(desc['fermionic'])],
               nontrivial=dim >= 4)


# ---- evolution ------------------------------------------------------------------------------------------------------------------

def draw_evolve(data, tier):
    from hypothesis import strategies as st
    fam = data.draw(st.sampled_from(FAMS))
    ops, sp, named = G.family(fam)
    lat = data.draw(st.sampled_from([l for l in LATS_Q if sp.d ** (l[0] * l[1]) <= 256]))
    N = lat[0] * lat[1]
    occ = [data.draw(st.integers(0, sp.d - 1)) for _ in range(N)]
    prep = PG.draw_circuit(data, fam, lat, tier, max_gates=2, kinds=('nn', 'local'))
    layer = PG.draw_circuit(data, fam, lat, tier, max_gates=3, kinds=('nn', 'nn', 'local', 'path', 'mpo'))
    return {'fam': fam, 'lat': lat, 'occ': occ, 'purification': False, 'gates': prep, 'layer': layer,
            'env': data.draw(st.sampled_from(['NTU:NN', 'NTU:NN+', 'NTU:NNN', 'NTU:NN++', 'BP', 'NTU:NNN+', 'NTU:NNN++'])), 'method': data.draw(st.sampled_from(['mpo', 'NN'])),
            'initialization': data.draw(st.sampled_from(['EAT_SVD', 'SVD', 'EAT']))}


def execute_evolve(desc):
    from checks import c11_peps_gates as c11
    fam, lat = desc['fam'], desc['lat']
    ops, sp, named = G.family(fam)
    psi, v, labels, nt0 = c11.run_circuit(desc, check=False)
    if np.linalg.norm(v) < 1e-8:
        raise Reject('state_annihilated')
    if max_bond(psi) > 32:
        raise Reject('bond_dimension_too_large')
    ref = v
    gates = []
    cond = 1.0
    for g in desc['layer']:
        sites = [tuple(s) for s in g['sites']]
        gates.append(PG.build_gate(g, fam, sites))
        Gd = PG.dense_gate(g, fam, lat, sites)
        sv = np.linalg.svd(Gd, compute_uv=False)
        cond = max(cond, sv[0] / max(sv[-1], 1e-300))
        ref = Gd @ ref
    if np.linalg.norm(ref) < 1e-8 * np.linalg.norm(v):
        raise Reject('state_annihilated')
    kind = desc['env']
    try:
        if kind.startswith('NTU'):
            env = fpeps.EnvNTU(psi, which=kind.split(':')[1])
        else:
            env = fpeps.EnvBP(psi, init='eye')
            env.iterate_(max_sweeps=20, diff_tol=1e-12)
        infos = fpeps.evolution_step_(env, gates, opts_svd={'D_total': 64, 'tol': 0}, initialization=desc['initialization'], method=desc['method'])
        got = PG.dense_state(psi, fam, lat)
    except YastnError as e:
        raise Violation(f'evolve:{kind}:unexpected_YastnError', str(e))
    c = np.vdot(ref, got) / np.vdot(ref, ref)
    err = np.linalg.norm(got - c * ref) / max(np.linalg.norm(got), 1e-300)
    if err > 1e-7:
        raise Violation(f'evolve:{kind}:state', f'after evolution_step_ with non-binding truncation the state deviates from the exactly evolved one by {err:.3e} (direction)')
    worst = max([float(i.truncation_error) for i in infos] + [0.0]) if infos else 0.0
    if cond > 100:
        pass    # strongly non-unitary layer (e.g. exp(-1.0 H) with |H| ~ 10): the metric is ill-conditioned and the reported error is dominated by the pseudo-inverse cutoffs
    elif worst > 1e-4:     # (the error is the square root of a difference of O(1) numbers computed with pseudo-inverse cutoffs >= 1e-12: ~1e-6 is round-off here)
        raise Violation(f'evolve:{kind}:truncation_error', f'non-binding truncation reports truncation_error = {worst:.3e}')
    for i in infos:
        if kind.startswith('NTU') and (float(i.nonhermitian_part) > 1e-9 or (i.min_eigenvalue is not None and float(i.min_eigenvalue) < -1e-9)):
            raise Violation(f'evolve:{kind}:metric', f'NTU metric on bond {i.bond}: nonhermitian_part = {i.nonhermitian_part}, min_eigenvalue = {i.min_eigenvalue}')
    return Res(labels=['env:' + kind, 'lattice:%dx%d' % (lat[0], lat[1]), 'family:%s:%s' % (G.FAMILIES[fam][0], G.FAMILIES[fam][1]['sym']), 'init:' + desc['initialization'], 'method:' + desc['method'], 'layer_cond<=100' if cond <= 100 else 'layer_cond>100:error_clause_skipped'] +
                      ['layer:' + ('mpo' if g['kind'] == 'mpo' else 'path' if len(g['sites']) > 2 else 'nn' if len(g['sites']) == 2 else 'local') for g in desc['layer']],
               nontrivial=any(len(g['sites']) > 1 for g in desc['layer']))


def parts(tier):
    return [HypPart('measure', draw_measure, execute_measure, {'quick': 960, 'thorough': 12000}),
            HypPart('metric', draw_metric, execute_metric, {'quick': 300, 'thorough': 6000}),
            HypPart('evolve', draw_evolve, execute_evolve, {'quick': 120, 'thorough': 3000})]
