"""C04 - Factorisations reconstruct the input with the promised structure.

One case = a generated tensor (float or integer data, any symmetry / charge / dtype, optionally lazily transposed and
hard-/meta-fused), an ordered bipartition of its legs and the options of svd / qr / eigh / eig. Only gauge-invariant
clauses are asserted: reconstruction, (co-)isometry / bi-orthonormality, spectrum ordering and sign, triangularity of R,
charge placement, signature / position / sectors of the connecting leg, compute_uv=False consistency.
"""
import numpy as np

from vlib import common as C
from vlib import program as P
from vlib.common import yastn, YastnError
from vlib.validate import validate_tensor
from vlib.runner import HypPart, Res, Violation, Reject

ID = 'C04'
RULE = ("One case = one tensor + bipartition + factorisation options. Non-trivial: >= 2 sectors with different min(D_left, D_right), "
        "or non-zero charge with nU=False, or (sU=-1 and a pending transpose), or a fused input. Distinct by SHA-1 of the descriptor.")
ASSUMPTIONS = ["tolerance 1e-11 * max(1, ||a||) for reconstruction / isometry (sector sizes <= ~40)",
               "gauge freedom: factors are never compared with NumPy's own factors",
               "eig inputs are generic (products of random matrices plus a shift); defective inputs reported by the backend are rejected"]

TOL = 1e-11


def draw_case(data, tier):
    from hypothesis import strategies as st
    prog = P.draw_input_program(data, tier, max_rank=4 if tier == 'quick' else 5)
    st_ = P.State(prog['cfg'], with_data=False)
    for s_ in prog['steps']:
        P.draw_apply(st_, s_)
    m = st_.pool[-1]
    if m.ndim < 2 or m.isdiag:
        prog = {'cfg': prog['cfg'], 'steps': prog['steps'][:1]}
        st_ = P.State(prog['cfg'], with_data=False)
        P.draw_apply(st_, prog['steps'][0])
        m = st_.pool[-1]
    perm = list(data.draw(st.permutations(list(range(m.ndim)))))
    k = data.draw(st.integers(1, m.ndim - 1))
    f = data.draw(st.sampled_from(['svd', 'qr', 'svd', 'eigh', 'eig', 'qr']))
    d = {'prog': prog, 'axes': [perm[:k], perm[k:]], 'f': f, 'sU': data.draw(st.sampled_from([1, -1])),
         'nU': data.draw(st.booleans()), 'seed': data.draw(st.integers(0, 99999)),
         'Uaxis': data.draw(st.integers(-(k + 1), k)), 'Vaxis': data.draw(st.integers(-(m.ndim - k + 1), m.ndim - k)),
         'which': data.draw(st.sampled_from(['LM', 'LR', 'SR', 'SM'])), 'fix_signs': data.draw(st.booleans()),
         'gfuse': data.draw(st.sampled_from([0, 1, 2, 0]))}
    return d


def dense_pair(x, y):
    """Dense arrays of two tensors living in the same space (legs of y may miss sectors of x and vice versa)."""
    lg = {}
    for i, (lx, ly) in enumerate(zip(x.get_legs(), y.get_legs())):
        lg[i] = yastn.legs_union(lx, ly)
    return x.to_numpy(legs=lg), y.to_numpy(legs=lg)


def close(x, y, scale):
    if len(y.get_blocks_charge()) == 0:
        return float(x.norm()) <= TOL * scale, float(x.norm())
    if len(x.get_blocks_charge()) == 0:
        return float(y.norm()) <= TOL * scale, float(y.norm())
    X, Y = dense_pair(x, y)
    err = float(np.max(np.abs(X - Y))) if X.size else 0.0
    return err <= TOL * scale, err


def is_identity(g, scale=1.0):
    """g is a 2-leg tensor (new*, new): identity on the sectors present."""
    A = g.to_numpy()
    if A.shape[0] != A.shape[1]:
        return False, f'shape {A.shape}'
    err = float(np.max(np.abs(A - np.eye(A.shape[0])))) if A.size else 0.0
    return err <= TOL * max(1.0, scale) * 10, err


def spectrum(S):
    return {t[:len(t) // 2]: np.asarray(S[t]) for t in S.get_blocks_charge()}


def check_connecting(U, ax, sU, V, axv, what):
    lu = U.get_legs(ax)
    if lu.s != sU or lu.history() != 'o':
        raise Violation(f'{what}:connecting_leg_U', f'leg {ax} of the first factor is {lu}, requested signature {sU}')
    if V is not None:
        lv = V.get_legs(axv)
        if lv.s != -sU or lv.history() != 'o' or lv.t != lu.t or lv.D != lu.D:
            raise Violation(f'{what}:connecting_leg_V', f'connecting legs {lu} / {lv} are not conjugate')


def execute(desc):
    try:
        a, m = P.last_tensor(desc['prog'])
    except P.StepFail:
        raise Reject('input_program_failed')
    if a.ndim < 2 or a.isdiag:
        raise Reject('rank<2')
    l, r = desc['axes']
    kl, kr = len(l), len(r)
    axes = (tuple(l), tuple(r))
    f, sU, nU = desc['f'], desc['sU'], desc['nU']
    zero = tuple(0 for _ in a.n)
    cfg = desc['prog']['cfg']
    labels = ['f:' + f, 'sym:' + cfg['sym'], 'dtype:' + ('complex' if a.is_complex() else 'real')]
    lazy = tuple(a.trans) != tuple(range(a.ndim_n))
    fused = m.any_fused()
    if lazy:
        labels.append('lazy_transpose')
    if fused:
        labels.append('fused_input')
    if any(a.n):
        labels.append('nonzero_charge')
    ap = a.transpose(axes=tuple(l) + tuple(r))
    nrm = float(a.norm())
    scale = max(1.0, nrm)
    minDs = set()
    try:
        if f == 'svd':
            Ua, Va = desc['Uaxis'], desc['Vaxis']
            U, S, V = a.svd(axes=axes, sU=sU, nU=nU, Uaxis=Ua, Vaxis=Va, fix_signs=desc['fix_signs'])
            for x, nm in ((U, 'U'), (S, 'S'), (V, 'V')):
                rr = validate_tensor(x)
                if rr:
                    raise Violation(f'svd:wellformed_{nm}_{rr[0]}', rr[1])
            if tuple(U.n) != (tuple(a.n) if nU else zero) or tuple(V.n) != (zero if nU else tuple(a.n)) or tuple(S.n) != zero:
                raise Violation('svd:charge_placement', f'nU={nU}: U.n={U.n} S.n={S.n} V.n={V.n}, a.n={a.n}')
            check_connecting(U, Ua, sU, V, Va, 'svd')
            if not S.isdiag or tuple(S.s) != (-sU, sU) or S.is_complex():
                raise Violation('svd:S_structure', f'S isdiag={S.isdiag} s={S.s} dtype={S.yastn_dtype}')
            if U.ndim != kl + 1 or V.ndim != kr + 1:
                raise Violation('svd:rank', f'U.ndim={U.ndim} V.ndim={V.ndim}')
            Um, Vm = U.moveaxis(Ua, -1), V.moveaxis(Va, 0)
            ok, err = close(ap, Um @ S @ Vm, scale)
            if not ok:
                raise Violation('svd:reconstruction', f'|a - U S V| = {err:.3e} (||a|| = {nrm:.3e})')
            g = yastn.tensordot(Um, Um, axes=(tuple(range(kl)), tuple(range(kl))), conj=(1, 0))
            ok, err = is_identity(g)
            if not ok:
                raise Violation('svd:U_isometry', f'U^dagger U deviates from 1 by {err}')
            g = yastn.tensordot(Vm, Vm, axes=(tuple(range(1, kr + 1)), tuple(range(1, kr + 1))), conj=(0, 1))
            ok, err = is_identity(g)
            if not ok:
                raise Violation('svd:V_coisometry', f'V V^dagger deviates from 1 by {err}')
            for t, v in spectrum(S).items():
                minDs.add(len(v))
                if np.any(v < 0) or np.any(np.diff(v) > 1e-13 * max(1.0, v.max(initial=0))):
                    raise Violation('svd:S_order', f'sector {t}: singular values {v.tolist()} not non-negative / non-increasing')
            S2 = a.svd(axes=axes, sU=sU, nU=nU, compute_uv=False)
            s1, s2 = spectrum(S), spectrum(S2)
            if s1.keys() != s2.keys() or any(not np.allclose(s1[t], s2[t], rtol=1e-10, atol=1e-12 * scale) for t in s1):
                raise Violation('svd:compute_uv_false', 'compute_uv=False returns different singular values')
        elif f == 'qr':
            Qa, Ra = desc['Uaxis'], desc['Vaxis']
            Q, R = a.qr(axes=axes, sQ=sU, Qaxis=Qa, Raxis=Ra)
            for x, nm in ((Q, 'Q'), (R, 'R')):
                rr = validate_tensor(x)
                if rr:
                    raise Violation(f'qr:wellformed_{nm}_{rr[0]}', rr[1])
            if tuple(Q.n) != tuple(a.n) or tuple(R.n) != zero:
                raise Violation('qr:charge_placement', f'Q.n={Q.n} R.n={R.n}, a.n={a.n}')
            check_connecting(Q, Qa, sU, R, Ra, 'qr')
            Qm, Rm = Q.moveaxis(Qa, -1), R.moveaxis(Ra, 0)
            ok, err = close(ap, Qm @ Rm, scale)
            if not ok:
                raise Violation('qr:reconstruction', f'|a - Q R| = {err:.3e} (||a|| = {nrm:.3e})')
            g = yastn.tensordot(Qm, Qm, axes=(tuple(range(kl)), tuple(range(kl))), conj=(1, 0))
            ok, err = is_identity(g)
            if not ok:
                raise Violation('qr:Q_isometry', f'Q^dagger Q deviates from 1 by {err}')
            # R is upper triangular with a non-negative real diagonal in every effective (merged) block
            # (qr merges the NATIVE legs of the right group flatly; a meta-fused leg inside the group is therefore unfused first, otherwise the
            # nested fusion below would order the columns of a merged block differently from the matrix that was factorised)
            Rflat = Rm
            while any(mf != (1,) for mf in Rflat.mfs[1:]):
                Rflat = Rflat.unfuse_legs(axes=[i for i, mf in enumerate(Rflat.mfs) if i > 0 and mf != (1,)])
            Rf = Rflat.fuse_legs(axes=(0, tuple(range(1, Rflat.ndim))), mode='hard') if Rflat.ndim > 2 else Rflat.fuse_meta_to_hard()
            for key in Rf.get_blocks_charge():
                blk = np.asarray(Rf[key])
                minDs.add(blk.shape[0])
                low = np.tril(blk, -1)
                dg = np.diagonal(blk)
                if low.size and np.max(np.abs(low)) > TOL * scale:
                    raise Violation('qr:R_triangular', f'block {key}: |strict lower part| = {np.max(np.abs(low)):.3e}')
                if np.any(np.abs(np.imag(dg)) > TOL * scale) or np.any(np.real(dg) < -TOL * scale):
                    raise Violation('qr:R_diagonal', f'block {key}: diagonal {dg.tolist()} is not real non-negative')
        elif f == 'eigh':
            # Hermitian input from a: g = a a^dagger over the right group, shifted to become indefinite
            g = yastn.tensordot(a, a, axes=(tuple(r), tuple(r)), conj=(0, 1))
            g2 = g.fuse_legs(axes=(tuple(range(kl)), tuple(range(kl, 2 * kl))), mode='hard') if kl > 1 else g.fuse_meta_to_hard()
            if len(g2.get_blocks_charge()) == 0:
                raise Reject('zero_tensor')
            g2 = g2 - (0.37 * g2.norm()) * yastn.eye(g2.config, legs=g2.get_legs(), isdiag=False)
            g = g2.unfuse_legs(axes=(0, 1)) if kl > 1 else g2
            kL = kR = kl
            gcmp = g
            gf = desc.get('gfuse', 0)
            if gf == 1 and kl > 1:      # only the left group meta-fused: U must be (meta leg, new leg)
                g = g.fuse_legs(axes=(tuple(range(kl)),) + tuple(range(kl, 2 * kl)), mode='meta')
                gcmp = g.fuse_legs(axes=(0, tuple(range(1, kl + 1))), mode='meta')
                kL = 1
                labels.append('eigh:left_group_meta_fused')
            elif gf == 2 and kl > 1:    # only the right group meta-fused: U keeps the kl legs of the left group
                g = g.fuse_legs(axes=tuple(range(kl)) + (tuple(range(kl, 2 * kl)),), mode='meta')
                kR = 1
                labels.append('eigh:right_group_meta_fused')
            gaxes = (tuple(range(kL)), tuple(range(kL, kL + kR)))
            gs = max(1.0, float(g.norm()))
            Ua = desc['Uaxis'] % (kL + 1)
            which = desc['which']
            S, U = g.eigh(axes=gaxes, sU=sU, Uaxis=Ua, which=which)
            if U.ndim != kL + 1:
                raise Violation('eigh:factor_rank', f'U.ndim = {U.ndim} for a left group of {kL} (meta-fused) legs')
            for x, nm in ((S, 'S'), (U, 'U')):
                rr = validate_tensor(x)
                if rr:
                    raise Violation(f'eigh:wellformed_{nm}_{rr[0]}', rr[1])
            if tuple(S.n) != zero or tuple(U.n) != zero:
                raise Violation('eigh:charge_placement', f'S.n={S.n} U.n={U.n}')
            check_connecting(U, Ua, sU, None, None, 'eigh')
            if not S.isdiag or S.is_complex() or tuple(S.s) != (-sU, sU):
                raise Violation('eigh:S_structure', f'S isdiag={S.isdiag} dtype={S.yastn_dtype} s={S.s}')
            Um = U.moveaxis(Ua, -1)
            rec = yastn.tensordot(Um @ S, Um, axes=(kL, kL), conj=(0, 1))
            ok, err = close(gcmp, rec, gs)
            if not ok:
                raise Violation('eigh:reconstruction', f'|a - U S U^dagger| = {err:.3e}')
            gg = yastn.tensordot(Um, Um, axes=(tuple(range(kL)), tuple(range(kL))), conj=(1, 0))
            ok, err = is_identity(gg)
            if not ok:
                raise Violation('eigh:U_unitary', f'U^dagger U deviates from 1 by {err}')
            for t, v in spectrum(S).items():
                minDs.add(len(v))
                key = {'LM': -np.abs(v), 'SM': np.abs(v), 'LR': -v, 'SR': v}[which]
                if np.any(np.diff(key) < -1e-12 * gs):
                    raise Violation('eigh:S_order', f"sector {t}: eigenvalues {v.tolist()} not ordered as which='{which}'")
            labels.append('which:' + which)
        else:  # eig: generic non-Hermitian square input  a b^dagger + shift
            C.reseed_backend(desc['seed'])
            b = yastn.rand_like(a)
            g = yastn.tensordot(a, b, axes=(tuple(r), tuple(r)), conj=(0, 1))
            g2 = g.fuse_legs(axes=(tuple(range(kl)), tuple(range(kl, 2 * kl))), mode='hard') if kl > 1 else g.fuse_meta_to_hard()
            if len(g2.get_blocks_charge()) == 0:
                raise Reject('zero_tensor')
            g2 = g2 + (0.61 * g2.norm()) * yastn.eye(g2.config, legs=g2.get_legs(), isdiag=False)
            g = g2.unfuse_legs(axes=(0, 1)) if kl > 1 else g2
            # optionally meta-fuse only ONE of the two (mirrored) leg groups: the factors must inherit the fusion of their own group
            kL = kR = kl
            gf = desc.get('gfuse', 0)
            if gf == 1 and kl > 1:
                g = g.fuse_legs(axes=(tuple(range(kl)),) + tuple(range(kl, 2 * kl)), mode='meta')
                kL = 1
                labels.append('eig:left_group_meta_fused')
            elif gf == 2 and kl > 1:
                g = g.fuse_legs(axes=tuple(range(kl)) + (tuple(range(kl, 2 * kl)),), mode='meta')
                kR = 1
                labels.append('eig:right_group_meta_fused')
            gaxes = (tuple(range(kL)), tuple(range(kL, kL + kR)))
            gs = max(1.0, float(g.norm()))
            Ua, Va = desc['Uaxis'] % (kL + 1), desc['Vaxis'] % (kR + 1)
            which = desc['which']
            try:
                U, S, V = g.eig(axes=gaxes, sU=sU, nU=nU, Uaxis=Ua, Vaxis=Va, which=which)
            except (ValueError, np.linalg.LinAlgError) as e:
                # a rejection is legitimate only for (nearly) degenerate / defective blocks: decide that densely
                gm = g.fuse_legs(axes=gaxes, mode='hard').fuse_meta_to_hard() if kl > 1 else g
                generic = True
                for key in gm.get_blocks_charge():
                    M = np.asarray(gm[key])
                    if M.shape[0] != M.shape[1]:
                        continue
                    ev, vec = np.linalg.eig(M)
                    if len(ev) > 1:
                        gap = np.min(np.abs(ev[:, None] - ev[None, :]) + np.eye(len(ev)) * 1e300)
                        if gap < 1e-6 * max(1.0, np.max(np.abs(ev))) or np.linalg.cond(vec) > 1e8:
                            generic = False
                if generic:
                    raise Violation('eig:rejects_nondegenerate_input', f'eig raised {type(e).__name__}: {e} on a matrix whose blocks have '
                                                                       'well separated eigenvalues and a well conditioned eigenbasis')
                raise Reject('eig_backend_rejects_input')
            for x, nm in ((U, 'U'), (S, 'S'), (V, 'V')):
                rr = validate_tensor(x)
                if rr:
                    raise Violation(f'eig:wellformed_{nm}_{rr[0]}', rr[1])
            check_connecting(U, Ua, sU, V, Va, 'eig')
            if tuple(U.n) != zero or tuple(V.n) != zero or tuple(S.n) != zero:
                raise Violation('eig:charge_placement', f'U.n={U.n} S.n={S.n} V.n={V.n}')
            Um, Vm = U.moveaxis(Ua, -1), V.moveaxis(Va, 0)
            # conditioning of the eigenbasis scales the attainable accuracy
            cond = max(1.0, float(Um.norm()) * float(Vm.norm()))
            ok, err = close(g, Um @ S @ Vm, gs * cond)
            if not ok:
                raise Violation('eig:reconstruction', f'|a - U S V| = {err:.3e} (cond ~ {cond:.1e})')
            if U.ndim != kL + 1 or V.ndim != kR + 1:
                raise Violation('eig:factor_rank', f'U.ndim = {U.ndim}, V.ndim = {V.ndim} for groups of {kL} and {kR} (meta-fused) legs')
            if kL != kR:    # compare through hard-fused single legs (a meta-fused pair and a hard-fused pair describe the same product space)
                Uh = Um.fuse_legs(axes=(tuple(range(kL)), kL), mode='hard').fuse_meta_to_hard()
                Vh = Vm.fuse_legs(axes=(0, tuple(range(1, kR + 1))), mode='hard').fuse_meta_to_hard()
                gg = yastn.tensordot(Vh, Uh, axes=(1, 0))
            else:
                gg = yastn.tensordot(Vm, Um, axes=(tuple(range(1, kl + 1)), tuple(range(kl))))
            ok, err = is_identity(gg, cond)
            if not ok:
                raise Violation('eig:biorthonormal', f'V U deviates from 1 by {err} (cond ~ {cond:.1e})')
            for t, v in spectrum(S).items():
                minDs.add(len(v))
                key = {'LM': -np.abs(v), 'SM': np.abs(v), 'LR': -np.real(v), 'SR': np.real(v)}[which]
                if np.any(np.diff(key) < -1e-9 * gs):
                    raise Violation('eig:S_order', f"sector {t}: eigenvalues {v.tolist()} not ordered as which='{which}'")
            labels.append('which:' + which)
    except YastnError as e:
        raise Violation(f'{f}:unexpected_YastnError', str(e))
    nt = len(minDs) >= 2 or (any(a.n) and not nU and f in ('svd',)) or (sU == -1 and lazy) or fused
    return Res(labels=labels, nontrivial=bool(nt))


def parts(tier):
    return [HypPart('factor', draw_case, execute, {'quick': 4000, 'thorough': 80000})]
