"""C20 - Lattice geometry is a consistent indexing of the square lattice.

Part 'lattices'  : exhaustive - every SquareLattice dims<=5x5 x boundary, Checkerboard, Triangular variants.
Part 'patterns'  : exhaustive - every RectangularUnitcell label matrix with Nx*Ny <= 8 (9 thorough) over <= 4 labels:
                   acceptance vs the neighbourhood model for all, full geometric audit for accepted canonical ones.
Part 'patterns_h': Hypothesis - larger patterns (up to 4x4 / 12 cells), single-momentum patterns, one-cell mutations,
                   dict and list input forms, malformed inputs, non-integer labels.
Part 'container' : Hypothesis rule-based state machine driving Lattice / Peps against a dict model.
"""
import itertools

import numpy as np

from vlib.common import yastn, YastnError
from vlib.runner import EnumPart, HypPart, MachinePart, Res, Violation, record

import yastn.tn.fpeps as fpeps
from yastn.tn.fpeps import Site, Bond

ID = 'C20'
RULE = ("One case = one geometry (class, dims, boundary or label pattern) audited over a window of +-2 unit cells, all 8 "
        "directions and shifts in [-3,3]^2 against an independent modular-arithmetic model of the tiling; or one "
        "container history. Non-trivial: >= 2 unique sites and a non-trivial translation class (repeated labels, "
        "cylinder seam, triangular sub-lattice, periodic direction); container histories are non-trivial when they "
        "contain a patch operation or an access through a translated site. Distinct by descriptor hash.")
ASSUMPTIONS = ["the model of the tiling (index = pattern[x mod Nx][y mod Ny] etc.) is written from the class docstrings",
               "window of +-2 unit cells; shifts |dx|,|dy| <= 3",
               "the cylinder seam bonds are reported as a known finding (lattice- but not fermionically ordered by design)"]

DIRS = {'tl': (-1, -1), 't': (-1, 0), 'tr': (-1, 1), 'l': (0, -1), 'r': (0, 1), 'bl': (1, -1), 'b': (1, 0), 'br': (1, 1)}
SEAM_KEY = 'geom:cylinder_seam_bonds_not_f_ordered'


# ------------------------------------------------------------------------------------------------
# model
# ------------------------------------------------------------------------------------------------

class Model:
    def __init__(self, desc):
        self.desc = desc
        c = desc['cls']
        if c == 'square':
            self.Nx, self.Ny = desc['dims']
            self.bc = {'infinite': 'ii', 'obc': 'oo', 'cylinder': 'po'}[desc['boundary']]
        elif c == 'checker':
            self.Nx, self.Ny, self.bc = 2, 2, 'ii'
        elif c == 'rect':
            self.pat = desc['pattern']
            self.Nx, self.Ny, self.bc = len(self.pat), len(self.pat[0]), 'ii'
        elif c == 'tri':
            if desc['full']:
                self.Nx, self.Ny = desc['dims']
                self.bc = {'infinite': 'ii', 'obc': 'oo'}[desc['boundary']]
            else:
                self.Nx, self.Ny, self.bc = 3, 3, 'ii'

    def exists(self, s):
        return (self.bc[0] != 'o' or 0 <= s[0] < self.Nx) and (self.bc[1] != 'o' or 0 <= s[1] < self.Ny)

    def index(self, s):
        """Model tensor label of a lattice site (only its equality structure matters)."""
        c = self.desc['cls']
        x, y = s
        if c == 'square' or (c == 'tri' and self.desc['full']):
            return (x % self.Nx if self.bc[0] in 'ip' else x, y % self.Ny if self.bc[1] == 'i' else y)
        if c == 'checker':
            return (x + y) % 2
        if c == 'rect':
            return self.pat[x % self.Nx][y % self.Ny]
        return (y - x) % 3  # triangular, three sub-lattices

    def nn(self, s, d):
        x, y = s[0] + d[0], s[1] + d[1]
        if self.bc[0] == 'o' and not 0 <= x < self.Nx:
            return None
        if self.bc[1] == 'o' and not 0 <= y < self.Ny:
            return None
        if self.bc[0] == 'p':
            x = x % self.Nx
        return (x, y)

    def window(self, k=2):
        xs = range(self.Nx) if self.bc[0] == 'o' else range(-k * self.Nx, (k + 1) * self.Nx)
        ys = range(self.Ny) if self.bc[1] == 'o' else range(-k * self.Ny, (k + 1) * self.Ny)
        return [(x, y) for x in xs for y in ys]

    def finite(self):
        return 'i' not in self.bc


def build_geometry(desc):
    c = desc['cls']
    if c == 'square':
        return fpeps.SquareLattice(dims=tuple(desc['dims']), boundary=desc['boundary'])
    if c == 'checker':
        return fpeps.CheckerboardLattice()
    if c == 'rect':
        pat = desc['pattern']
        if desc.get('form') == 'dict':
            pat = {(i, j): lab for i, row in enumerate(pat) for j, lab in enumerate(row)}
        elif desc.get('form') == 'tuple':
            pat = tuple(tuple(r) for r in pat)
        return fpeps.RectangularUnitcell(pattern=pat)
    if c == 'tri':
        if desc['full']:
            return fpeps.TriangularLattice(dims=tuple(desc['dims']), boundary=desc['boundary'], full_patch=True)
        return fpeps.TriangularLattice()
    raise ValueError(c)


def pattern_valid(pat):
    """Every label has a single (top, left, bottom, right) label neighbourhood on the tiled plane."""
    Nx, Ny = len(pat), len(pat[0])
    env = {}
    for x in range(Nx):
        for y in range(Ny):
            e = (pat[(x - 1) % Nx][y], pat[x][(y - 1) % Ny], pat[(x + 1) % Nx][y], pat[x][(y + 1) % Ny])
            if env.setdefault(pat[x][y], e) != e:
                return False
    return True


# ------------------------------------------------------------------------------------------------
# the geometric audit
# ------------------------------------------------------------------------------------------------

def audit_geometry(desc, g=None, window_k=2):
    """Return list of (key, message) failures for geometry `desc`."""
    m = Model(desc)
    if g is None:
        g = build_geometry(desc)
    c = desc['cls']
    fails = []

    def fail(clause, msg):
        fails.append((f'geom:{c}:{clause}', msg))

    if (g.Nx, g.Ny) != (m.Nx, m.Ny) or tuple(g.dims) != (m.Nx, m.Ny):
        fail('dims', f'dims {g.dims} vs model {(m.Nx, m.Ny)}')
    win = m.window(window_k)
    shifts = list(DIRS.items()) + [((dx, dy), (dx, dy)) for dx in range(-3, 4) for dy in range(-3, 4)]
    # (a) neighbour lookup agrees with the model, returns None exactly outside open boundaries, is mutually inverse
    for s in win:
        for d, v in shifts:
            r = g.nn_site(Site(*s), d)
            e = m.nn(s, v)
            if (r is None) != (e is None) or (r is not None and tuple(r) != e):
                fail('nn_site', f'nn_site({s}, {d}) = {r}, model {e}')
                break
            if r is not None:
                if not isinstance(r, Site):
                    fail('nn_site_type', f'nn_site({s}, {d}) returned {type(r).__name__}')
                back = g.nn_site(r, (-v[0], -v[1]))
                if back is None or g.site2index(back) != g.site2index(Site(*s)) or \
                        (m.bc[0] != 'p' and tuple(back) != s) or (m.bc[0] == 'p' and (back[0] - s[0]) % m.Nx != 0) or back[1] != s[1]:
                    fail('nn_inverse', f'nn_site(nn_site({s},{d}),-d) = {back}')
                    break
        else:
            continue
        break
    if g.nn_site(None, 'r') is not None:
        fail('nn_site_none', 'nn_site(None, d) is not None')
    # (d) indexing: the partition of the window by site2index equals the partition by the model index
    fwd, bwd = {}, {}
    for s in win:
        iy, im = g.site2index(Site(*s)), m.index(s)
        if fwd.setdefault(iy, im) != im or bwd.setdefault(im, iy) != iy:
            fail('site2index', f'site2index({s}) = {iy!r} but model label {im!r}: translation classes differ')
            break
    # (c) sites(): one representative per tensor index, no repeats, column-major (fermionic) order
    sites = list(g.sites())
    if len(set(sites)) != len(sites):
        fail('sites_repeat', f'{sites}')
    if not all(isinstance(s, Site) for s in sites):
        fail('sites_type', 'sites() entries are not Site')
    if m.finite() and sorted(sites, key=lambda s: (s[1], s[0])) != sites:  # fermionic order is physical on finite lattices
        fail('sites_order', f'sites() not in fermionic order: {sites}')
    if list(g.sites(reverse=True)) != sites[::-1]:
        fail('sites_reverse', 'sites(reverse=True) is not the reversed list')
    idx_sites = [g.site2index(s) for s in sites]
    if len(set(idx_sites)) != len(idx_sites):
        fail('sites_index_repeat', f'two listed sites share a tensor index: {sites}')
    if set(idx_sites) != set(fwd.keys()):
        fail('sites_cover', f'listed sites cover indices {sorted(map(str, set(idx_sites)))} but window has {sorted(map(str, fwd))}')
    if len(sites) != len(set(m.index(s) for s in win)):
        fail('sites_count', f'{len(sites)} unique sites, model has {len(set(m.index(s) for s in win))}')
    if m.finite() and set(map(tuple, sites)) != set(s for s in win if 0 <= s[0] < m.Nx):
        fail('sites_finite', 'finite lattice does not list every site')
    # (b) bonds
    kinds = [('h', (0, 1), 'lr', 'rl'), ('v', (1, 0), 'tb', 'bt')]
    seam = []
    allb = []
    for dn, vec, fw, bw in kinds:
        bonds = list(g.bonds(dn))
        allb += bonds
        if list(g.bonds(dn, reverse=True)) != bonds[::-1]:
            fail('bonds_reverse', f'bonds({dn}, reverse=True)')
        classes = []
        for b in bonds:
            if not isinstance(b, Bond) or b[0] is None or b[1] is None:
                fail('bond_type', f'{b}')
                continue
            s0, s1 = tuple(b[0]), tuple(b[1])
            if m.nn(s0, vec) != s1 or not m.exists(s0):
                fail('bond_not_nn', f'bond {b} in bonds({dn}) does not join nearest neighbours')
                continue
            try:
                dr = g.nn_bond_dirn(b[0], b[1])
                dr2 = g.nn_bond_dirn(b)
            except YastnError as e:
                fail('nn_bond_dirn_raises', f'{b}: {e}')
                continue
            if dr != fw or dr2 != fw:
                fail('nn_bond_dirn', f'nn_bond_dirn{b} = {dr}, expected {fw}')
            rev_valid = {nm for nm, v in (('lr', (0, 1)), ('tb', (1, 0)), ('rl', (0, -1)), ('bt', (-1, 0)))
                         if m.nn(s1, v) == s0 and m.nn(s0, (-v[0], -v[1])) == s1}
            try:
                drr = g.nn_bond_dirn(b[1], b[0])
            except YastnError as e:
                drr = f'raises {e}'
            if drr not in rev_valid or (rev_valid == {bw} and drr != bw):
                fail('nn_bond_dirn_reversed', f'nn_bond_dirn({b[1]}, {b[0]}) = {drr}, model allows {sorted(rev_valid)}')
            if not g.f_ordered(b[0], b[1]):
                if m.bc[0] == 'p' and dn == 'v' and s0[0] == m.Nx - 1 and s1[0] == 0 and s0[1] == s1[1]:
                    seam.append(b)
                else:
                    fail('bond_f_order', f'listed bond {b} is not fermionically ordered')
            classes.append((m.index(s0), m.index(s1)))
        if not m.finite() and len(set(classes)) != len(classes):
            fail('bond_class_repeat', f'bonds({dn}) lists one translation class twice')
        if m.finite():
            exp = sorted((s, m.nn(s, vec)) for s in win if m.exists(s) and 0 <= s[0] < m.Nx and m.nn(s, vec) is not None)
            got = sorted((tuple(b[0]), tuple(b[1])) for b in bonds if b[0] is not None and b[1] is not None)
            if exp != got:
                fail('bonds_finite', f'bonds({dn}) = {got}, every physical bond once = {exp}')
        else:
            exp = set((m.index(s), m.index(m.nn(s, vec))) for s in win)
            if set(classes) != exp:
                fail('bond_classes', f'bonds({dn}) classes {sorted(map(str, set(classes)))} vs tiling {sorted(map(str, exp))}')
    if c == 'tri':
        try:
            bd = list(g.bonds('d'))
            for b in bd:
                if b[0] is None or b[1] is None:
                    fail('bond_d_none', f"bonds('d') lists {tuple(b)}")
                    break
                s0, s1 = tuple(b[0]), tuple(b[1])
                if m.nn(s0, (-1, 1)) != s1:
                    fail('bond_d_not_diag', f'{b}')
                if not g.f_ordered(b[0], b[1]):
                    fail('bond_d_f_order', f'{b}')
            good = [b for b in bd if b[0] is not None and b[1] is not None]
            if m.finite():
                exp = sorted((s, m.nn(s, (-1, 1))) for s in win if m.exists(s) and m.nn(s, (-1, 1)) is not None)
                if exp != sorted((tuple(b[0]), tuple(b[1])) for b in good):
                    fail('bonds_d_finite', f"bonds('d') does not list every diagonal bond once")
            else:
                cl = [(m.index(tuple(b[0])), m.index(tuple(b[1]))) for b in good]
                if len(set(cl)) != len(cl) or set(cl) != set((m.index(s), m.index(m.nn(s, (-1, 1)))) for s in win):
                    fail('bond_d_classes', "bonds('d') classes differ from the tiling")
            allb = allb + bd
            if list(g.bonds('d', reverse=True)) != bd[::-1]:
                fail('bonds_reverse', "bonds('d', reverse=True)")
        except YastnError as e:
            fail('bonds_d_raises', str(e))
    try:
        if list(g.bonds()) != allb or list(g.bonds(reverse=True)) != allb[::-1]:
            fail('bonds_all', 'bonds() is not h + v (+ d) / its reverse')
    except TypeError as e:
        fail('bonds_all_typeerror', f'bonds() raised TypeError: {e}')
    # non-neighbours raise, neighbours are recognised (sample of window pairs around the cell)
    core = [s for s in win if -1 <= s[0] <= m.Nx and -1 <= s[1] <= m.Ny][:49]
    for s0 in core:
        for s1 in core:
            valid = [nm for nm, v in (('lr', (0, 1)), ('tb', (1, 0)), ('rl', (0, -1)), ('bt', (-1, 0)))
                     if m.nn(s0, v) == s1 and m.nn(s1, (-v[0], -v[1])) == s0]
            try:
                dr = g.nn_bond_dirn(Site(*s0), Site(*s1))
            except YastnError:
                dr = None
            if (dr is None) != (not valid) or (dr is not None and dr not in valid):
                fail('nn_bond_dirn_pairs', f'nn_bond_dirn({s0},{s1}) = {dr}, model {valid}')
                break
        else:
            continue
        break
    # (e) fermionic order: total order equal to column-major order
    small = [s for s in win if -m.Nx <= s[0] < 2 * m.Nx and -m.Ny <= s[1] < 2 * m.Ny]
    small = small[::max(1, len(small) // 100)]
    for s0 in small:
        for s1 in small:
            if bool(g.f_ordered(Site(*s0), Site(*s1))) != ((s0[1], s0[0]) <= (s1[1], s1[0])):
                fail('f_ordered', f'f_ordered({s0},{s1}) = {g.f_ordered(s0, s1)}')
                break
        else:
            continue
        break
    # geometry equality / serialisation of geometry are covered in C17; here only self-equality
    if not (g == g) or not (g == build_geometry(desc)) or g != build_geometry(desc):
        fail('eq', 'two instances of the same geometry compare unequal')
    if seam and not fails:
        exp_seam = sorted(((m.Nx - 1, y), (0, y)) for y in range(m.Ny))
        if sorted((tuple(b[0]), tuple(b[1])) for b in seam) == exp_seam:
            fails.append((SEAM_KEY, f'cylinder {m.Nx}x{m.Ny}: seam bonds {seam[:2]}.. are tb-ordered but not f_ordered'))
        else:
            fail('bond_f_order', f'unexpected un-ordered bonds {seam}')
    return fails


def geom_labels(desc, m):
    labs = [desc['cls']]
    if desc['cls'] in ('square', 'tri'):
        labs.append(f"{desc['cls']}:{desc.get('boundary', 'infinite')}")
    return labs


def geom_nontrivial(desc, m):
    idx = set(m.index(s) for s in m.window(1))
    if len(idx) < 2:
        return False
    return 'i' in m.bc or 'p' in m.bc


def geom_execute(desc):
    m = Model(desc)
    fails = audit_geometry(desc)
    labels = geom_labels(desc, m)
    if fails:
        key, msg = fails[0]
        raise Violation(key, msg + (f' (+{len(fails) - 1} more)' if len(fails) > 1 else ''))
    return Res(labels=labels, nontrivial=geom_nontrivial(desc, m))


# ------------------------------------------------------------------------------------------------
# part: fixed lattices (exhaustive)
# ------------------------------------------------------------------------------------------------

def lattice_descs(tier):
    out = []
    for Nx in range(1, 6):
        for Ny in range(1, 6):
            for b in ('obc', 'infinite', 'cylinder'):
                out.append({'cls': 'square', 'dims': [Nx, Ny], 'boundary': b})
    out.append({'cls': 'checker'})
    out.append({'cls': 'tri', 'full': False})
    for Nx in range(1, 5):
        for Ny in range(1, 5):
            for b in ('infinite', 'obc'):
                out.append({'cls': 'tri', 'full': True, 'dims': [Nx, Ny], 'boundary': b})
    return out


def lattice_chunks(tier):
    d = lattice_descs(tier)
    return [d[i::16] for i in range(16)]


def run_desc_list(chunk, res, known, ctx):
    for desc in chunk:
        try:
            r = geom_execute(desc)
        except Violation as v:
            r = Res('violation', key=v.key, msg=v.msg, nontrivial=True, labels=[desc['cls']])
        record(res, desc, r, known)


# ------------------------------------------------------------------------------------------------
# part: RectangularUnitcell patterns (exhaustive)
# ------------------------------------------------------------------------------------------------

def pattern_shapes(maxcells):
    return [(a, b) for a in range(1, maxcells + 1) for b in range(1, maxcells + 1) if a * b <= maxcells]


def pattern_chunks(tier):
    maxcells = 8 if tier == 'quick' else 10
    chunks = []
    for (Nx, Ny) in pattern_shapes(maxcells):
        n = Nx * Ny
        total = 4 ** n
        nch = max(1, total // 20000)
        for i in range(nch):
            chunks.append({'shape': [Nx, Ny], 'lo': i * total // nch, 'hi': (i + 1) * total // nch})
    # interleave big and small chunks across shards
    return chunks


def run_pattern_chunk(ch, res, known, ctx):
    Nx, Ny = ch['shape']
    n = Nx * Ny
    acc = rej = full = 0
    for code in range(ch['lo'], ch['hi']):
        labs = [(code >> (2 * i)) & 3 for i in range(n)]
        pat = [labs[r * Ny:(r + 1) * Ny] for r in range(Nx)]
        valid = pattern_valid(pat)
        try:
            g = fpeps.RectangularUnitcell(pattern=pat)
            ok = True
        except YastnError:
            ok = False
        desc = None
        r = None
        if ok != valid:
            desc = {'cls': 'rect', 'pattern': pat}
            r = Res('violation', key='geom:rect:accept_iff_single_neighbourhood',
                    msg=f'pattern {pat} accepted={ok} model valid={valid}', nontrivial=True)
        elif ok:
            acc += 1
            # canonical (first-occurrence) labelling gets the full audit; relabelled copies only acceptance
            seen = []
            for x in labs:
                if x not in seen:
                    seen.append(x)
            if seen == list(range(len(seen))):
                full += 1
                desc = {'cls': 'rect', 'pattern': pat}
                fails = audit_geometry(desc, g=g, window_k=1)
                m = Model(desc)
                if fails:
                    r = Res('violation', key=fails[0][0], msg=fails[0][1], nontrivial=True)
                else:
                    r = Res(labels=['rect:accepted_audited'], nontrivial=len(seen) >= 2)
        else:
            rej += 1
        if r is not None:
            record(res, desc, r, known, want_samples=2)
        else:
            res['evaluations'] += 1
    res['labels']['rect:accepted'] += acc
    res['labels']['rect:rejected'] += rej
    res['nt_enum'] += rej  # every rejected matrix is a distinct non-trivial acceptance case (>= 2 labels by necessity)


def pattern_execute(desc):
    pat = desc['pattern']
    valid = pattern_valid(pat)
    try:
        g = build_geometry(desc)
        ok = True
    except YastnError:
        ok = False
    if ok != valid:
        raise Violation('geom:rect:accept_iff_single_neighbourhood', f'pattern {pat} accepted={ok} model valid={valid}')
    if not ok:
        return Res(labels=['rect:rejected'], nontrivial=True)
    fails = audit_geometry(desc, g=g)
    if fails:
        raise Violation(fails[0][0], fails[0][1])
    return Res(labels=['rect:accepted'], nontrivial=len(set(x for r in pat for x in r)) >= 2)


# ------------------------------------------------------------------------------------------------
# part: Hypothesis patterns
# ------------------------------------------------------------------------------------------------

def draw_pattern_case(data, tier):
    from hypothesis import strategies as st
    kind = data.draw(st.sampled_from(['momentum', 'momentum', 'momentum_mut', 'random', 'malformed', 'labels']))
    Nx = data.draw(st.integers(1, 4 if tier == 'quick' else 6))
    Ny = data.draw(st.integers(1, 4 if tier == 'quick' else 6))
    form = data.draw(st.sampled_from(['list', 'dict', 'tuple']))
    if kind in ('momentum', 'momentum_mut', 'labels'):
        k = data.draw(st.integers(1, 6))
        a = data.draw(st.integers(0, k - 1))
        b = data.draw(st.integers(0, k - 1))
        perm = data.draw(st.permutations(list(range(k))))
        pat = [[perm[(a * x + b * y) % k] for y in range(Ny)] for x in range(Nx)]
        if kind == 'momentum_mut':
            x, y = data.draw(st.integers(0, Nx - 1)), data.draw(st.integers(0, Ny - 1))
            pat[x][y] = data.draw(st.integers(0, k))
        if kind == 'labels':
            names = data.draw(st.sampled_from([['a', 'b', 'c', 'd', 'e', 'f'], [(0, 0), (0, 1), (1, 0), (1, 1), (2, 0), (2, 1)],
                                               [10, -3, 7, 99, 5, 0], [True, 2, 'x', 3, 4, 5]]))
            pat = [[names[v] for v in row] for row in pat]
        return {'cls': 'rect', 'pattern': pat, 'form': form, 'kind': kind}
    if kind == 'random':
        nl = data.draw(st.integers(1, 4))
        pat = [[data.draw(st.integers(0, nl - 1)) for _ in range(Ny)] for _ in range(Nx)]
        return {'cls': 'rect', 'pattern': pat, 'form': form, 'kind': kind}
    mal = data.draw(st.sampled_from(['ragged', 'dict_hole', 'dict_offset', 'unhashable', 'flat', 'scalar']))
    return {'cls': 'rect_malformed', 'mal': mal, 'Nx': Nx, 'Ny': Ny, 'kind': kind}


def pattern_h_execute(desc):
    if desc['cls'] == 'rect_malformed':
        Nx, Ny, mal = desc['Nx'], desc['Ny'], desc['mal']
        if mal == 'ragged':
            pat = [[0] * Ny for _ in range(Nx)] + [[0] * (Ny + 1)]
        elif mal == 'dict_hole':
            pat = {(i, j): 0 for i in range(Nx + 1) for j in range(Ny + 1)}
            del pat[(Nx, 0)]
        elif mal == 'dict_offset':
            pat = {(i + 1, j): 0 for i in range(Nx) for j in range(Ny)}
        elif mal == 'unhashable':
            pat = [[[0] for _ in range(Ny)] for _ in range(Nx)]
        elif mal == 'flat':
            pat = [0] * Ny
        else:
            pat = 7
        try:
            fpeps.RectangularUnitcell(pattern=pat)
        except YastnError:
            return Res(labels=['malformed:' + mal], nontrivial=True)
        except (TypeError, KeyError, IndexError, AttributeError, ValueError) as e:
            raise Violation(f'geom:rect:malformed_{mal}_not_YastnError', f'{type(e).__name__}: {e}')
        raise Violation(f'geom:rect:malformed_{mal}_accepted', f'pattern {pat!r} accepted')
    d = dict(desc)
    d['pattern'] = [[tuple(v) if isinstance(v, list) else v for v in row] for row in desc['pattern']]
    r = pattern_execute(d)
    r.labels.append('kind:' + desc.get('kind', '?'))
    r.labels.append('form:' + desc.get('form', 'list'))
    return r


# ------------------------------------------------------------------------------------------------
# part: container state machine
# ------------------------------------------------------------------------------------------------

class Obj:
    """A stand-in for a tensor: identity matters, shallow_copy makes a new object with the same tag."""
    count = 0

    def __init__(self, tag):
        self.tag = tag

    def shallow_copy(self):
        return Obj(self.tag)

    def __repr__(self):
        return f'Obj({self.tag})'


CONTAINER_GEOMS = [{'cls': 'square', 'dims': [2, 3], 'boundary': 'obc'}, {'cls': 'square', 'dims': [3, 2], 'boundary': 'cylinder'},
                   {'cls': 'square', 'dims': [2, 2], 'boundary': 'infinite'}, {'cls': 'checker'},
                   {'cls': 'rect', 'pattern': [[0, 1, 2], [1, 2, 0], [2, 0, 1]]}, {'cls': 'rect', 'pattern': [[0, 1], [2, 3]]},
                   {'cls': 'rect', 'pattern': [[0, 1, 0, 1]]}, {'cls': 'tri', 'full': False},
                   {'cls': 'tri', 'full': True, 'dims': [2, 2], 'boundary': 'infinite'},
                   {'cls': 'square', 'dims': [1, 4], 'boundary': 'obc'}]


def run_container_program(prog):
    """Interpret a container program (list of steps) against the dict model. Raises Violation."""
    gd = prog['geometry']
    m = Model(gd)
    g = build_geometry(gd)
    cls = fpeps.Peps if prog.get('peps') else fpeps.Lattice
    objs = {}

    def obj(tag):
        return objs.setdefault(tag, Obj(tag))

    win = m.window(1)
    init = prog.get('init')
    model, patch = {}, {}
    idxs = sorted(set(m.index(s) for s in win if m.exists(s)), key=str)
    if init is None:
        net = cls(g)
        model = {i: None for i in idxs}
    else:
        kind = init['kind']
        if kind == 'single':
            net = cls(g, obj('S'))
            model = {i: objs['S'] for i in idxs}
        else:
            # assignment: list of [site, tag]; valid iff all inside, consistent and covering
            assign = [(tuple(s), t) for s, t in init['assign']]
            if kind == 'dict':
                assign = list(dict(assign).items())  # a dict argument keeps the last value given for a site
            exp, valid = {}, True
            for s, t in assign:
                if not m.exists(s):
                    valid = False
                    break
                if exp.setdefault(m.index(s), t) != t:
                    valid = False
                    break
            if valid and set(exp) != set(idxs):
                valid = False
            if kind == 'dict':
                arg = {s: obj(t) for s, t in assign}
            else:  # nested list: assign must be a full rectangle in row-major order
                R, C = init['shape']
                arg = [[obj(dict(assign)[(i, j)]) for j in range(C)] for i in range(R)]
            try:
                net = cls(g, arg)
                ok = True
            except YastnError:
                ok = False
            if ok != valid:
                raise Violation('container:constructor_accepts_iff_consistent',
                                f'{cls.__name__}({gd}, {init}) accepted={ok}, model valid={valid}')
            if not ok:
                return {'rejected_init': True, 'steps': 0, 'patch_ops': 0, 'translated': 0}
            model = {i: objs[t] for i, t in exp.items()}
    stats = {'rejected_init': False, 'steps': 0, 'patch_ops': 0, 'translated': 0}
    nets = [(net, model, patch)]

    def check(netx, modelx, patchx, where):
        for s in win:
            if not m.exists(s):
                continue
            exp = patchx[s] if s in patchx else modelx[m.index(s)]
            got = netx[Site(*s)] if (s[0] + s[1]) % 2 else netx[s]
            if got is not exp:
                raise Violation('container:read', f'after {where}: net[{s}] is {got!r}, model holds {exp!r}')
        its = list(netx.items())
        if [s for s, _ in its] != list(g.sites()) or any(o is not (patchx[tuple(s)] if tuple(s) in patchx else modelx[m.index(tuple(s))]) for s, o in its):
            raise Violation('container:items', f'after {where}: items() disagrees with the model')

    check(net, model, patch, 'init')
    for step in prog['steps']:
        op = step['op']
        k = step.get('net', 0) % len(nets)
        netx, modelx, patchx = nets[k]
        stats['steps'] += 1
        if op == 'set':
            s = tuple(step['site'])
            o = obj(step['tag'])
            netx[Site(*s)] = o
            if s in patchx:
                patchx[s] = o
            else:
                modelx[m.index(s)] = o
            if not (0 <= s[0] < m.Nx and 0 <= s[1] < m.Ny):
                stats['translated'] += 1
        elif op == 'move_to_patch':
            sites = [tuple(s) for s in step['sites']]
            if any((patchx[s] if s in patchx else modelx[m.index(s)]) is None for s in sites):
                continue  # nothing to copy there: not a valid call
            arg = Site(*sites[0]) if step.get('single') and len(sites) == 1 else [Site(*s) for s in sites]
            before = {s: (patchx[s] if s in patchx else modelx[m.index(s)]) for s in sites}
            netx.move_to_patch(arg)
            for s in sites:
                got = netx[s]
                if got is before[s] and s not in patchx:
                    raise Violation('container:patch_is_copy', f'move_to_patch({s}) did not create a shallow copy')
                if got.tag != before[s].tag:
                    raise Violation('container:patch_value', f'patch at {s} holds {got!r}, expected a copy of {before[s]!r}')
                patchx[s] = got
            stats['patch_ops'] += 1
        elif op == 'apply_patch':
            netx.apply_patch()
            for s in list(patchx.keys()):
                modelx[m.index(s)] = patchx.pop(s)
            stats['patch_ops'] += 1
        elif op == 'shallow_copy':
            n2 = netx.shallow_copy()
            nets.append((n2, dict(modelx), {}))  # documented: new instance pointing to the same tensors (site data)
            if type(n2) is not type(netx) or n2.geometry != netx.geometry:
                raise Violation('container:shallow_copy_type', 'shallow_copy changed type or geometry')
        for j, (nx_, mx_, px_) in enumerate(nets):
            check(nx_, mx_, px_, f'{op} on net {k} (reading net {j})')
    return stats


def container_factory(res, known, tier, state):
    from hypothesis import strategies as st
    from hypothesis.stateful import RuleBasedStateMachine, rule, initialize, precondition

    class ContainerMachine(RuleBasedStateMachine):
        def __init__(self):
            super().__init__()
            self.prog = None

        @initialize(gi=st.integers(0, len(CONTAINER_GEOMS) - 1), peps=st.booleans(), data=st.data())
        def init(self, gi, peps, data):
            gd = CONTAINER_GEOMS[gi]
            m = Model(gd)
            self.m = m
            kind = data.draw(st.sampled_from(['none', 'single', 'dict', 'dict_bad', 'list']))
            cell = [(x, y) for x in range(m.Nx) for y in range(m.Ny)]
            init = None
            if kind == 'single':
                init = {'kind': 'single'}
            elif kind in ('dict', 'dict_bad'):
                sites = list(cell)
                if 'i' in m.bc and data.draw(st.booleans()):
                    sites += data.draw(st.lists(st.sampled_from(m.window(1)), max_size=3))
                assign = [[list(s), f'T{m.index(s)}'] for s in sites]
                if kind == 'dict_bad':
                    how = data.draw(st.sampled_from(['conflict', 'outside', 'missing']))
                    if how == 'conflict':
                        j = data.draw(st.integers(0, len(assign) - 1))
                        assign[j][1] = 'Tother'
                    elif how == 'outside':
                        assign.append([[m.Nx + 1, m.Ny + 2], 'Tout'])
                    else:
                        assign = assign[:-1]
                init = {'kind': 'dict', 'assign': assign}
            elif kind == 'list':
                R = m.Nx if 'i' not in m.bc else data.draw(st.integers(m.Nx, m.Nx + 1))
                C = m.Ny if 'i' not in m.bc else data.draw(st.integers(m.Ny, m.Ny + 1))
                assign = [[[i, j], f'T{m.index((i, j))}'] for i in range(R) for j in range(C)]
                init = {'kind': 'list', 'assign': assign, 'shape': [R, C]}
            self.prog = {'geometry': gd, 'peps': peps, 'init': init, 'steps': []}
            self.nnets = 1
            self.filled = init is not None

        def _site(self, data):
            return list(data.draw(st.sampled_from([s for s in self.m.window(1) if self.m.exists(s)])))

        @rule(data=st.data(), tag=st.integers(0, 5))
        def set(self, data, tag):
            self.prog['steps'].append({'op': 'set', 'site': self._site(data), 'tag': f'N{tag}', 'net': data.draw(st.integers(0, 3))})

        @rule(data=st.data(), single=st.booleans())
        def move_to_patch(self, data, single):
            n = 1 if single else data.draw(st.integers(1, 3))
            sites = [self._site(data) for _ in range(n)]
            self.prog['steps'].append({'op': 'move_to_patch', 'sites': sites, 'single': single, 'net': data.draw(st.integers(0, 3))})

        @rule(k=st.integers(0, 3))
        def apply_patch(self, k):
            self.prog['steps'].append({'op': 'apply_patch', 'net': k})

        @rule(k=st.integers(0, 3))
        def shallow_copy(self, k):
            if self.nnets < 3:
                self.nnets += 1
                self.prog['steps'].append({'op': 'shallow_copy', 'net': k})

        def teardown(self):
            if self.prog is None:
                return
            import time
            if state['t_fail'] is not None and time.time() - state['t_fail'] > 30:
                return
            desc = self.prog
            try:
                stats = run_container_program(desc)
                r = Res(labels=['container', 'init:' + str((desc['init'] or {}).get('kind'))],
                        nontrivial=stats['patch_ops'] > 0 or stats['translated'] > 0 or stats['rejected_init'])
            except Violation as v:
                r = Res('violation', key=v.key, msg=v.msg, nontrivial=True)
            if record(res, desc, r, known):
                if state['t_fail'] is None:
                    state['t_fail'] = time.time()
                raise AssertionError('violation')

    return ContainerMachine


def container_replay(desc):
    run_container_program(desc)
    return Res(nontrivial=True)


def parts(tier):
    return [EnumPart('lattices', lattice_chunks, run_desc_list, geom_execute),
            EnumPart('patterns', pattern_chunks, run_pattern_chunk, pattern_execute),
            HypPart('patterns_h', draw_pattern_case, pattern_h_execute, {'quick': 1500, 'thorough': 40000}),
            MachinePart('container', container_factory, {'quick': 400, 'thorough': 10000}, {'quick': 12, 'thorough': 25},
                        replay=container_replay)]
