"""C09 - DMRG is variational and self-consistent.

One case = a random Hermitian Hamiltonian (hopping, densities, interactions, fields; any family x symmetry; single MPO or sum of MPOs;
precompute on/off), an initial random MPS of an admissible charge, a method schedule ('1site' / '2site' / switches through yastn.Method),
eigensolver and truncation options, a number of sweeps. Dense reference: H from NumPy Jordan-Wigner products, sector spectrum from eigvalsh.
Part 'sweeps'   : normalisation, canonical form, sector, energy == <psi|H|psi>, E >= lambda_min(sector), monotone sweeps without binding truncation,
                  sum of MPOs / precompute give the same per-sweep energies.
Part 'converge' : full bond dimension, run to convergence: eigenstate residual, E is a sector eigenvalue; projected run is orthogonal to the
                  ground state and reaches the next level.
"""
import numpy as np

from vlib import common as C
from vlib import mpsgen as G
from vlib import hamgen as HG
from vlib.common import yastn, YastnError
from vlib.runner import HypPart, Res, Violation, Reject
import yastn.tn.mps as mps

ID = 'C09'
RULE = ("One case = one Hamiltonian + initial state + schedule. Non-trivial: sector dimension >= 4 and the run lowers the energy by more than "
        "1e-6 ||H|| (the start is not an eigenstate); sub-classes labelled: non-zero charge, method switch, sum of MPOs, precompute, projection. "
        "Distinct by SHA-1 of the descriptor.")
ASSUMPTIONS = ["dense H from vlib/jw.py (the MPO itself is validated by C07)", "tolerances: 1e-9 ||H|| for energies, 1e-5 ||H|| for eigen-residuals",
               "the eigenstate / next-level clauses are asserted only for runs that report convergence and sectors with relative gap >= 1e-3"]


def draw_case(data, tier, converge=False):
    from hypothesis import strategies as st
    fam = data.draw(st.sampled_from([i for i, (nm, kw) in enumerate(G.FAMILIES) if nm != 'Qdit']))
    ops, sp, named = G.family(fam)
    maxN = {2: 6 if not converge else 6, 3: 4, 4: 3 if converge else 4}.get(sp.d, 3)
    N = data.draw(st.sampled_from([n for n in [3, 4, 2, 5, 6] if n <= maxN]))
    terms = HG.draw_hamiltonian(data, fam, N, tier)
    adm = [n for n in G.admissible_charges(sp, N) if G.sector_dim(sp, N, n) >= 2]
    if not adm:
        adm = G.admissible_charges(sp, N)
    n = list(data.draw(st.sampled_from(adm)))
    case = {'fam': fam, 'N': N, 'terms': terms, 'n': n, 'seed': data.draw(st.integers(0, 9999)),
            'dtype': 'complex128' if any(isinstance(t['amp'], dict) for t in terms) or data.draw(st.integers(0, 3)) == 0 else 'float64',
            'nsplit': data.draw(st.sampled_from([1, 1, 2, 3])), 'precompute': data.draw(st.sampled_from([False, False, True])),
            # scalar prefactors kept in the factor of each MPO (the couplings inside are divided by them, so H is unchanged)
            'fscales': [data.draw(st.sampled_from([1, 2, 0.5, 3, 1])) for _ in range(3)]}
    if converge:
        case['project'] = data.draw(st.booleans())
        case['method'] = data.draw(st.sampled_from(['1site', '2site']))
        # penalty of the projected run: the default (100) or an explicit (penalty, state) pair with a penalty of 20 spectral widths; the energy
        # scale of H is sometimes 300, so that gaps exceed the default penalty and only the explicit one is large enough
        case['penalty'] = data.draw(st.sampled_from(['default', 'explicit', 'explicit']))
        sc = data.draw(st.sampled_from([1, 1, 300])) if case['penalty'] == 'explicit' else 1
        if sc != 1:
            mul = lambda a: {'re': a['re'] * sc, 'im': a['im'] * sc} if isinstance(a, dict) else a * sc
            case['terms'] = [dict(t, amp=mul(t['amp'])) for t in case['terms']]
        case['ampscale'] = sc
        return case
    case['D'] = data.draw(st.sampled_from([2, 3, 4, 6, 8]))
    nsw = data.draw(st.integers(1, 5))
    case['schedule'] = [data.draw(st.sampled_from(['1site', '2site', '1site'])) for _ in range(nsw)]
    case['ncv'] = data.draw(st.sampled_from([2, 3, 4, 6, None]))      # None: dmrg_'s default eigensolver options
    case['svd'] = data.draw(st.sampled_from([{'tol': 1e-14}, {'tol': 1e-14, 'D_total': 64}, {'D_total': 2}, {'D_total': 3, 'tol': 1e-6}]))
    case['compare_forms'] = data.draw(st.booleans())
    return case


def hamiltonian_forms(case):
    fam, N = case['fam'], case['N']
    fs = case.get('fscales', [1, 1, 1])

    def scaled(terms, c):
        if c == 1:
            return HG.build_mpo(terms, fam, N)
        div = lambda a: {'re': a['re'] / c, 'im': a['im'] / c} if isinstance(a, dict) else a / c
        return c * HG.build_mpo([dict(t, amp=div(t['amp'])) for t in terms], fam, N)

    groups = [case['terms']] if case['nsplit'] == 1 else HG.split_terms(case['terms'], case['nsplit'])
    for g in [case['terms']] + groups:
        if np.linalg.norm(HG.dense_h(g, fam, N)) < 1e-12:
            raise Reject('zero_operator')       # terms cancel exactly: generate_mpo returns an MPO without virtual charges (as in C10)
    H1 = HG.build_mpo(case['terms'], fam, N)
    if case['nsplit'] == 1:
        return H1, scaled(case['terms'], fs[0])
    return H1, [scaled(g, fs[k % len(fs)]) for k, g in enumerate(groups)]


def start_state(case, full=False):
    fam, N = case['fam'], case['N']
    ops, sp, named = G.family(fam)
    C.reseed_backend(case['seed'])
    if full:
        ten = yastn.rand(sp.config, legs=[sp.leg] * N, n=tuple(case['n']), dtype=case['dtype'])
        if len(ten.get_blocks_charge()) == 0:
            return None
        return mps.mps_from_tensor(ten, canonize='first')
    I = mps.product_mpo(ops.I(), N=N)
    try:
        return mps.random_mps(I, n=tuple(case['n']), D_total=case['D'], dtype=case['dtype'])
    except YastnError as e:
        if 'zero state' in str(e):
            return None
        raise


def execute_sweeps(case):
    fam, N = case['fam'], case['N']
    ops, sp, named = G.family(fam)
    Hd = HG.dense_h(case['terms'], fam, N)
    nH = max(np.linalg.norm(Hd, 2), 1e-12)
    mask = G.sector_mask(sp, N, case['n'])
    ev = np.linalg.eigvalsh(Hd[np.ix_(mask, mask)])
    lam_min = ev[0]
    Hsingle, Hform = hamiltonian_forms(case)
    psi = start_state(case)
    if psi is None:
        raise Reject('zero_random_state')
    legs0 = psi.get_physical_legs()
    n0 = psi.virtual_leg('first').t
    v0 = G.mps_dense(psi, sp)
    E0 = float(np.real(np.vdot(v0, Hd @ v0) / np.vdot(v0, v0)))
    method = yastn.Method(case['schedule'][0])
    binding = 'D_total' in case['svd'] and case['svd']['D_total'] < 16
    energies = []
    try:
        it = mps.dmrg_(psi, Hform, method=method, max_sweeps=len(case['schedule']), iterator=True,
                       opts_eigs=None if case['ncv'] is None else {'hermitian': True, 'ncv': case['ncv'], 'which': 'SR'},
                       opts_svd=dict(case['svd']), precompute=case['precompute'])
        for k, out in enumerate(it):
            v = G.mps_dense(psi, sp)
            nv = np.linalg.norm(v)
            if abs(nv - 1) > 1e-9:
                raise Violation('dmrg:not_normalised', f'after sweep {k + 1}: ||psi|| = {nv}')
            if not psi.is_canonical(to='first', tol=1e-9):
                raise Violation('dmrg:not_canonical', f'after sweep {k + 1}: psi is not canonical to the first site')
            if np.linalg.norm(v[~mask]) > 1e-10:
                raise Violation('dmrg:left_sector', f'after sweep {k + 1}: weight {np.linalg.norm(v[~mask])} outside the charge sector')
            E = float(np.real(np.vdot(v, Hd @ v)))
            if abs(out.energy - E) > 1e-9 * max(1.0, nH):
                raise Violation('dmrg:energy_not_expectation', f'sweep {k + 1}: reported {out.energy}, <psi|H|psi> = {E}')
            if E < lam_min - 1e-9 * max(1.0, nH):
                raise Violation('dmrg:below_ground_state', f'sweep {k + 1}: E = {E} < lambda_min = {lam_min}')
            if out.method != case['schedule'][k]:
                raise Violation('dmrg:method_field', f'sweep {k + 1}: out.method = {out.method}, scheduled {case["schedule"][k]}')
            if out.sweeps != k + 1:
                raise Violation('dmrg:sweep_count', f'out.sweeps = {out.sweeps} after {k + 1} sweeps')
            prev = energies[-1] if energies else E0
            truncating = binding and case['schedule'][k] == '2site'
            if not truncating and not (binding and '2site' in case['schedule'][:k + 1]) and E > prev + 1e-9 * max(1.0, nH):
                raise Violation('dmrg:energy_increased', f'sweep {k + 1} ({case["schedule"][k]}): E rose from {prev} to {E} without binding truncation')
            energies.append(E)
            if k + 1 < len(case['schedule']):
                method.update_(case['schedule'][k + 1])
    except YastnError as e:
        raise Violation('dmrg:unexpected_YastnError', str(e))
    if psi.virtual_leg('first').t != n0 or any(not set(l.t) <= set(sp.leg.t) for l in psi.get_physical_legs()):
        raise Violation('dmrg:sector_changed', 'total charge or physical space changed')
    labels = ['family:%s:%s' % (G.FAMILIES[fam][0], G.FAMILIES[fam][1]['sym'])]
    # the effective Hamiltonians of the other form of H (single MPO vs sum of MPOs) and of the other precompute setting are the same
    # linear maps: compared on every site and bond of the final state (per-sweep energies of two Krylov runs with few vectors are not
    # comparable bit-wise: a 1e-16 difference in H|v> can change a restart decision)
    if case['compare_forms']:
        chi = psi.shallow_copy()
        envA = mps.Env(chi, [Hform, chi], precompute=case['precompute']).setup_(to='first')
        envB = mps.Env(chi, [Hsingle, chi], precompute=not case['precompute']).setup_(to='first')
        for n in range(N):
            outs = []
            for env_, pre in ((envA, case['precompute']), (envB, not case['precompute'])):
                A = chi.pre_1site(n, precompute=pre)
                HA = env_.Heff1(A, n)
                outs.append(HA.unfuse_legs(axes=1) if HA.ndim == 2 else HA)
            if (outs[0] - outs[1]).norm() > 1e-10 * max(1.0, nH):
                raise Violation('dmrg:Heff1_form_dependence', f'site {n}: Heff1 differs between H forms / precompute by {(outs[0] - outs[1]).norm():.3e}')
            if n + 1 < N:
                outs = []
                for env_, pre in ((envA, case['precompute']), (envB, not case['precompute'])):
                    env_.update_env_(n + 1, to='first') if (n + 2, n + 1) not in env_.F else None
                    AA = chi.pre_2site((n, n + 1), precompute=pre)
                    HAA = env_.Heff2(AA, (n, n + 1))
                    outs.append(HAA.unfuse_legs(axes=(0, 1)) if HAA.ndim == 2 else HAA)
                if (outs[0] - outs[1]).norm() > 1e-10 * max(1.0, nH):
                    raise Violation('dmrg:Heff2_form_dependence', f'bond {(n, n + 1)}: Heff2 differs between H forms / precompute by {(outs[0] - outs[1]).norm():.3e}')
            for env_ in (envA, envB):
                env_.update_env_(n, to='last')
        labels.append('forms_compared')
    if case['nsplit'] > 1:
        labels.append('sum_of_mpos')
    if case['precompute']:
        labels.append('precompute')
    if len(set(case['schedule'])) > 1:
        labels.append('method_switch')
    if any(case['n']):
        labels.append('nonzero_charge')
    if binding:
        labels.append('binding_truncation')
    nt = int(mask.sum()) >= 4 and (E0 - energies[-1]) > 1e-6 * nH
    return Res(labels=labels, nontrivial=bool(nt))


def execute_converge(case):
    fam, N = case['fam'], case['N']
    ops, sp, named = G.family(fam)
    Hd = HG.dense_h(case['terms'], fam, N)
    nH = max(np.linalg.norm(Hd, 2), 1e-12)
    mask = G.sector_mask(sp, N, case['n'])
    Hs = Hd[np.ix_(mask, mask)]
    ev = np.linalg.eigvalsh(Hs)
    dim = len(ev)
    Hsingle, Hform = hamiltonian_forms(case)
    psi = start_state(case, full=True)
    if psi is None:
        raise Reject('zero_random_state')
    labels = ['family:%s:%s' % (G.FAMILIES[fam][0], G.FAMILIES[fam][1]['sym']), 'method:' + case['method']]
    opts = dict(method=case['method'], max_sweeps=60, energy_tol=1e-13, Schmidt_tol=1e-10,
                opts_eigs={'hermitian': True, 'ncv': 6, 'which': 'SR', 'tol': 1e-14}, opts_svd={'tol': 1e-14}, precompute=case['precompute'])
    try:
        out = mps.dmrg_(psi, Hform, **opts)
    except YastnError as e:
        raise Violation('dmrg:unexpected_YastnError', str(e))
    v = G.mps_dense(psi, sp)
    E = float(np.real(np.vdot(v, Hd @ v)))
    if abs(out.energy - E) > 1e-9 * max(1.0, nH):
        raise Violation('dmrg:energy_not_expectation', f'reported {out.energy}, <psi|H|psi> = {E}')
    if out.sweeps >= 60:
        return Res(labels=labels + ['not_converged'], nontrivial=False)
    res = np.linalg.norm(Hd @ v - E * v)
    if res > 1e-5 * max(1.0, nH):
        raise Violation('dmrg:converged_not_eigenstate', f'converged after {out.sweeps} sweeps but ||H psi - E psi|| = {res:.3e}')
    if np.min(np.abs(ev - E)) > 1e-7 * max(1.0, nH):
        raise Violation('dmrg:energy_not_eigenvalue', f'E = {E} is not an eigenvalue of the sector (closest {ev[np.argmin(np.abs(ev - E))]})')
    labels.append('converged')
    nt = dim >= 4
    if case['project'] and dim >= 3:
        gap_ok = (ev[1] - ev[0]) > 1e-3 * max(1.0, nH) and (ev[2] - ev[1]) > 1e-3 * max(1.0, nH)
        ground = abs(E - ev[0]) <= 1e-7 * max(1.0, nH)
        if gap_ok and ground:
            case2 = dict(case, seed=case['seed'] + 1)
            phi = start_state(case2, full=True)
            if phi is not None:
                if case.get('penalty', 'default') == 'explicit':
                    project = [(20.0 * float(ev[-1] - ev[0]) + 1.0, psi)]
                    labels.append('explicit_penalty' + (':energy_scale_300' if case.get('ampscale', 1) != 1 else ''))
                else:
                    project = [psi]
                out2 = mps.dmrg_(phi, Hform, project=project, **opts)
                w = G.mps_dense(phi, sp)
                ov = abs(np.vdot(v, w))
                E2 = float(np.real(np.vdot(w, Hd @ w)))
                if out2.sweeps < 60:
                    if ov > 1e-6:
                        raise Violation('dmrg:projection_not_orthogonal', f'|<psi0|psi>| = {ov:.3e} after a converged projected run')
                    # orthogonal to the exact ground state => E2 >= next level (variational); a converged run sits on an eigenvalue.
                    # (1-site sweeps can stall on a higher product eigenstate, e.g. when a site decouples: reaching exactly the next
                    #  level is labelled, not required)
                    if E2 < ev[1] - 1e-6 * max(1.0, nH):
                        raise Violation('dmrg:projection_below_next_level', f'projected run gives E = {E2} below the next level {ev[1]} (ground {ev[0]})')
                    if np.min(np.abs(ev - E2)) > 1e-6 * max(1.0, nH):
                        raise Violation('dmrg:projection_not_eigenvalue', f'converged projected run gives E = {E2}, not an eigenvalue of the sector')
                    labels.append('reached_next_level' if abs(E2 - ev[1]) <= 1e-6 * max(1.0, nH) else 'stalled_on_higher_level')
                    if abs(out2.energy - E2) > 1e-8 * max(1.0, nH):
                        raise Violation('dmrg:projected_energy_not_expectation', f'reported {out2.energy}, <psi|H|psi> = {E2}')
                    labels.append('projection')
                else:
                    labels.append('projection_not_converged')
        else:
            labels.append('skipped_degenerate')
    return Res(labels=labels, nontrivial=bool(nt))


def parts(tier):
    return [HypPart('sweeps', lambda d, t: draw_case(d, t, False), execute_sweeps, {'quick': 400, 'thorough': 5000}),
            HypPart('converge', lambda d, t: draw_case(d, t, True), execute_converge, {'quick': 160, 'thorough': 2000})]
