"""C15 - Operations never modify their operands; copies are independent.

Part 'tensor_programs': generated programs over the whole tensor-level catalogue (vlib.program.OPS incl. factorisations, block,
                 constructors) plus a list of extra observers/functions; a byte-level snapshot (to_dict(level=2): data bytes,
                 struct, slices, trans, hfs, mfs) of EVERY pool tensor is taken before and compared after every call, also
                 when the call raises.
Part 'copies'  : copy / clone / from_dict(to_dict) / shallow views of generated tensors: the source is modified through the
                 documented in-place API (set_block, item assignment, block arithmetic) and the copy must stay unchanged, and
                 vice versa; shallow views keep their own structure.
Part 'mps', 'peps' (see vlib/mpsgen.py, vlib/pepsgen.py): the same for MPS/MPO and PEPS methods and containers.
"""
import copy as pycopy

import numpy as np

from vlib import common as C
from vlib import program as P
from vlib.common import yastn, YastnError
from vlib.runner import HypPart, Res, Violation, Reject

ID = 'C15'
RULE = ("One case = one generated program / object history. Non-trivial: some call's result shares storage with an argument "
        "(numpy.shares_memory) or an argument is reused by a later call of the same program. Distinct by SHA-1 of the descriptor.")
ASSUMPTIONS = ["only the documented in-place API (set_block, __setitem__, methods ending in '_', Method.update_) may mutate",
               "snapshots go through to_dict(level=2) plus the raw data bytes",
               "a result that IS the argument (to() with nothing to do, trace with no axes, add of one tensor) is allowed"]

EXTRA_CALLS = ['norm', 'norm_inf', 'to_numpy', 'to_dense', 'to_nonsymmetric', 'to_dict0', 'to_dict2', 'save_to_dict', 'get_legs', 'get_shape',
               'is_consistent', 'str', 'allclose', 'truncation_mask', 'entropy', 'eigh_LM', 'svd_S', 'getitem', 'contains', 'rand_like',
               'zeros_like_legs', 'legs_union', 'to_raw', 'item', 'compare', 'bitwise_not', 'split_meta', 'print_properties', 'are_independent']


def snap(t):
    d = t.to_dict(level=2)
    return (C.dhash({k: v for k, v in d.items() if k not in ('data', 'config')}), np.asarray(d['data']).tobytes(), str(np.asarray(d['data']).dtype),
            bytes(np.asarray(t.data).tobytes()))


def extra_call(name, x, yp, rng):
    """Observers and functions outside vlib.program.OPS. Returns the result (or None)."""
    if name == 'norm':
        return x.norm()
    if name == 'norm_inf':
        return x.norm(p='inf')
    if name == 'to_numpy':
        return x.to_numpy()
    if name == 'to_dense':
        return x.to_dense(reverse=True)
    if name == 'to_nonsymmetric':
        return x.to_nonsymmetric() if len(x.get_blocks_charge()) else None
    if name == 'to_dict0':
        return x.to_dict(level=0)
    if name == 'to_dict2':
        return x.to_dict(level=2, resolve_ops=True)
    if name == 'save_to_dict':
        import warnings
        with warnings.catch_warnings():
            warnings.simplefilter('ignore')
            return x.save_to_dict()
    if name == 'get_legs':
        return x.get_legs(native=True), x.get_legs()
    if name == 'get_shape':
        return x.get_shape(), x.shape, x.size
    if name == 'is_consistent':
        return x.is_consistent()
    if name == 'str':
        return str(x), repr(x)
    if name == 'allclose':
        return x.allclose(x), yastn.allclose(x, x.copy())
    if name == 'truncation_mask':
        if x.isdiag and not x.is_complex():
            return yastn.truncation_mask(abs(x), D_total=1), yastn.truncation_mask(abs(x), tol=0.5, D_block=1)
        return None
    if name == 'entropy':
        return yastn.entropy(abs(x)) if x.isdiag else None
    if name == 'eigh_LM':
        if x.ndim == 2 and not x.isdiag:
            g = yastn.tensordot(x, x, axes=(1, 1), conj=(0, 1))
            s0 = snap(g)
            out = g.eigh(axes=(0, 1), which='LM'), g.eigh_with_truncation(axes=(0, 1), which='LM', D_total=2)
            if snap(g) != s0:
                raise Violation('operand_modified:eigh', 'eigh(which=LM) / eigh_with_truncation modified its argument')
            return out
        return None
    if name == 'svd_S':
        if x.ndim >= 2 and not x.isdiag:
            return x.svd(axes=(0, tuple(range(1, x.ndim))), compute_uv=False), x.svd_with_truncation(axes=(tuple(range(x.ndim - 1)), x.ndim - 1), D_total=2)
        return None
    if name == 'getitem':
        out = []
        for key in x.get_blocks_charge():
            pass
        legs = x.get_legs(native=True)
        import itertools
        for key in itertools.islice(itertools.product(*(l.t for l in legs)), 6):
            try:
                blk = x[tuple(itertools.chain.from_iterable(key))]
                out.append(np.asarray(blk).copy())
            except YastnError:
                pass
        return out
    if name == 'contains':
        return [k in x for k in x.get_blocks_charge()[:3]]
    if name == 'rand_like':
        return yastn.rand_like(x)
    if name == 'zeros_like_legs':
        return yastn.zeros(x.config, legs=x.get_legs(), n=x.n) if not x.isdiag else yastn.eye(x.config, legs=x.get_legs(0))
    if name == 'legs_union':
        return [yastn.legs_union(l, l) for l in x.get_legs() if len(l.t)]
    if name == 'to_raw':
        return x.to_raw_tensor() if len(x.get_blocks_charge()) == 1 else None
    if name == 'item':
        return (x.item(), x.to_number()) if x.size <= 1 else None
    if name == 'compare':
        return (x > 0, x < 1, x >= 0, x <= 0) if not x.is_complex() else None
    if name == 'bitwise_not':
        return (x > 0).bitwise_not() if not x.is_complex() else None
    if name == 'split_meta':
        d, m = yastn.split_data_and_meta(x.to_dict(level=0))
        return yastn.Tensor.from_dict(yastn.combine_data_and_meta(d, m))
    if name == 'print_properties':
        import io
        buf = io.StringIO()
        x.print_properties(file=buf)
        x.print_blocks_shape(file=buf)
        return buf.getvalue()
    if name == 'are_independent':
        return x.are_independent(x.copy()), x.are_independent(x.shallow_copy(), independent=False)
    raise ValueError(name)


W = {'linalg': 1.2, 'ctor': 0.8, 'drop_leg_history': 0.4, 'block': 0.8, 'fuse': 2.5, 'unfuse': 2.0, 'swap_gate': 1.0, 'new': 1.5,
     'tensordot': 4.0, 'scalar': 1.5, 'copy': 1.0}


def draw_program_case(data, tier):
    from hypothesis import strategies as st
    prog = P.draw_program(data, tier, min_steps=3, max_steps=8 if tier == 'quick' else 12, weights=W, live=True)
    n = len(prog['steps'])
    extras = [[data.draw(st.integers(0, n - 1)), data.draw(st.sampled_from(EXTRA_CALLS))] for _ in range(data.draw(st.integers(0, 5)))]
    return {'prog': prog, 'extras': extras}


def shares(res, ops):
    outs = list(res) if isinstance(res, (tuple, list)) else [res]
    for r in outs:
        if isinstance(r, yastn.Tensor):
            for o in ops:
                if np.shares_memory(np.asarray(r.data), np.asarray(o.data)):
                    return True
    return False


def execute_program_case(desc):
    prog = desc['prog']
    config = C.make_config(prog['cfg'])
    yp = []
    used = {}
    stats = {'shares': 0, 'reuse': 0, 'calls': 0, 'extra_calls': 0}
    extras = {}
    for k, nm in desc['extras']:
        extras.setdefault(k, []).append(nm)
    covered = set()
    for k, step in enumerate(prog['steps']):
        before = [snap(t) for t in yp]
        ops_idx = [step[key] for key in ('x', 'y') if key in step] + list(step.get('ys', [])) + list(step.get('members', []))
        for i in ops_idx:
            used[i] = used.get(i, 0) + 1
            if used[i] > 1:
                stats['reuse'] += 1
        raised = None
        try:
            y = P.OPS[step['op']].yastn(yp, step, config)
        except YastnError as e:
            raised = e
            y = None
        stats['calls'] += 1
        covered.add(step['op'] + (':' + step['f'] if 'f' in step else ''))
        after = [snap(t) for t in yp]
        for i, (b, a) in enumerate(zip(before, after)):
            if a != b:
                what = 'structure' if a[0] != b[0] else 'data'
                raise Violation(f"operand_modified:{step['op']}" + (f":{step['f']}" if 'f' in step else ''),
                                f"step {k} ({step['op']}{'' if raised is None else ', which raised ' + str(raised)[:60]}) changed the {what} of "
                                f"pool tensor {i}{' (an operand)' if i in ops_idx else ' (not even an operand)'}")
        if raised is not None:
            break
        if shares(y, [yp[i] for i in ops_idx]):
            stats['shares'] += 1
        for yi in (list(y) if isinstance(y, (tuple, list)) else [y]):
            if isinstance(yi, yastn.Tensor):
                yp.append(yi)
        for nm in extras.get(k, []):
            if not yp:
                continue
            x = yp[-1]
            before = [snap(t) for t in yp]
            try:
                r = extra_call(nm, x, yp, None)
            except YastnError:
                r = None
            stats['extra_calls'] += 1
            covered.add('extra:' + nm)
            after = [snap(t) for t in yp]
            for i, (b, a) in enumerate(zip(before, after)):
                if a != b:
                    raise Violation(f'operand_modified:extra:{nm}', f'{nm} after step {k} changed pool tensor {i}')
    labels = sorted('call:' + c for c in covered)
    return Res(labels=labels, nontrivial=stats['shares'] > 0 or stats['reuse'] > 0)


# ---- copies -------------------------------------------------------------------------------------------------------

def draw_copy_case(data, tier):
    from hypothesis import strategies as st
    prog = P.draw_input_program(data, tier, values='int', min_rank=1, max_rank=4)
    return {'prog': prog, 'how': data.draw(st.sampled_from(['copy', 'clone', 'dict0', 'dict1', 'dict2', 'split', 'shallow_copy', 'detach', 'to', 'mul1'])),
            'mut': data.draw(st.sampled_from(['setitem', 'iadd', 'set_block_existing', 'set_block_new', 'setitem'])),
            'direction': data.draw(st.sampled_from(['source', 'copy'])), 'seed': data.draw(st.integers(0, 999))}


def mutate(t, how, rng):
    """Modify t through the documented in-place API. Returns True when something was changed."""
    import itertools
    keys = list(t.get_blocks_charge())
    if not keys:
        return False
    legs = t.get_legs(native=True)
    lkeys = []
    for key in itertools.product(*(l.t for l in legs)):
        flat = tuple(itertools.chain.from_iterable(key))
        try:
            t[flat]
            lkeys.append(flat)
        except YastnError:
            pass
    if not lkeys:
        return False
    key = lkeys[int(rng.integers(len(lkeys)))]
    blk = np.asarray(t[key])
    if how == 'setitem':
        t[key] = blk + 7
    elif how == 'iadd':
        t[key] += 5
    elif how == 'set_block_existing':
        if tuple(t.trans) != tuple(range(t.ndim_n)) or t.isdiag:
            t[key] = blk * 0 + 3
        else:
            t.set_block(ts=key, Ds=blk.shape, val=np.full(blk.shape, 9.0))
    else:
        if tuple(t.trans) != tuple(range(t.ndim_n)) or t.isdiag:
            t[key] = blk - 11
        else:
            t.set_block(ts=key, Ds=blk.shape, val='ones')
            t[key] *= 13
    return True


def execute_copy_case(desc):
    try:
        a, m = P.last_tensor(desc['prog'])
    except P.StepFail:
        raise Reject('input_program_failed')
    how = desc['how']
    rng = np.random.default_rng(desc['seed'])
    if how == 'copy':
        b = a.copy()
    elif how == 'clone':
        b = a.clone()
    elif how == 'dict0':
        b = yastn.Tensor.from_dict(dict(a.to_dict(level=0)))
    elif how == 'dict1':
        b = yastn.from_dict(a.to_dict(level=1))
    elif how == 'dict2':
        b = yastn.Tensor.from_dict(a.to_dict(level=2))
    elif how == 'split':
        d, meta = yastn.split_data_and_meta(a.to_dict(level=0))
        b = yastn.Tensor.from_dict(yastn.combine_data_and_meta(tuple(np.array(x, copy=True) for x in d), meta))
    elif how == 'shallow_copy':
        b = a.shallow_copy()
    elif how == 'detach':
        b = a.detach()
    elif how == 'to':
        b = a.to(dtype='complex128' if not a.is_complex() else 'complex128')
    else:
        b = a * 1
    independent = how in ('copy', 'clone', 'dict2', 'split', 'mul1') or (how == 'to' and not a.is_complex()) or how in ('dict1',)
    if how in ('dict0', 'dict1'):
        # level < 2 keeps the backend array: for the NumPy backend level 1 documents nothing about copying; treat as views
        independent = not np.shares_memory(np.asarray(a.data), np.asarray(b.data))
    src, dst = (a, b) if desc['direction'] == 'source' else (b, a)
    s_dst = snap(dst)
    struct_dst = s_dst[0]
    changed = mutate(src, desc['mut'], rng)
    if not changed:
        raise Reject('nothing_to_mutate')
    after = snap(dst)
    labels = ['how:' + how, 'mut:' + desc['mut'], 'dir:' + desc['direction']]
    if independent:
        if after != s_dst:
            raise Violation(f'copy_not_independent:{how}', f"modifying the {desc['direction']} through {desc['mut']} changed the other object obtained by {how}")
    else:
        if after[0] != struct_dst:
            raise Violation(f'view_structure_changed:{how}', f'a shallow view obtained by {how} changed its own structure')
        labels.append('view')
    return Res(labels=labels, nontrivial=True)


def parts(tier):
    ps = [HypPart('tensor_programs', draw_program_case, execute_program_case, {'quick': 2000, 'thorough': 40000}),
          HypPart('copies', draw_copy_case, execute_copy_case, {'quick': 1500, 'thorough': 20000})]
    try:
        from vlib import mps_immut
        ps += mps_immut.parts(tier)
    except ImportError:
        pass
    return ps
