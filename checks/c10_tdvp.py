"""C10 - TDVP conserves what it must and is exact on the full manifold.

Part 'exact'    : saturated bond dimension (mps_from_tensor of a random sector vector, any gauge / factor): after every snapshot the dense
                  state equals expm(-u t H) psi(0) (normalised when normalize=True; up to the documented scalar when subtract_E=True) for
                  u real / imaginary / complex, methods 1site / 2site / 12site, orders 2nd / 4th, single MPO or sum, precompute; TDVP_out
                  bookkeeping (ti, tf, dt, steps); sector, canonical form.
Part 'conserve' : small bond dimension, real time, Hermitian H: norm and energy constant for 1site (any D) and 2site / 12site with non-binding
                  truncation.
Part 'order'    : time-dependent generator H(t) = H0 + f(t) H1 on saturated states: the error against a fine dense reference shrinks by at
                  least 2^(p-1/2) when dt is halved (p = 2, 4; observed ratios on the unchanged tree: 4.0-4.2 and 16-35), for dt such that the coarse
                  error lies in [1e-6, 1e-3]; a low ratio must repeat at the next halving before it counts.
"""
import math

import numpy as np
import scipy.linalg as sla

from vlib import common as C
from vlib import mpsgen as G
from vlib import hamgen as HG
from vlib.common import yastn, YastnError
from vlib.runner import HypPart, Res, Violation, Reject
import yastn.tn.mps as mps

ID = 'C10'
RULE = ("One case = one Hamiltonian + initial state + time grid + options. Non-trivial: saturated state with sector dimension >= 6 and >= 2 "
        "snapshots, or a small-D conservation case with >= 3 sweeps, or an order case inside the error window. Distinct by SHA-1 of the descriptor.")
ASSUMPTIONS = ["dense reference scipy.linalg.expm of the JW Hamiltonian", "exactness tolerance 1e-9, conservation 1e-8 (expmv tolerance 1e-12)",
               "order clause: factor 2^(p-1/2) for time-dependent generators (2^(p-1) for the splitting error on saturated states with mixed bases), skipped outside the error window (asymptotic statement probed at two step sizes)"]

US = [{'re': 0, 'im': 1}, 1, {'re': 0.5, 'im': 1}, {'re': 0, 'im': -1}, 0.7]


def cxu(u):
    return C.cplx(u) if isinstance(u, dict) else u


def draw_common(data, tier, small=False):
    from hypothesis import strategies as st
    fam = data.draw(st.sampled_from([i for i, (nm, kw) in enumerate(G.FAMILIES) if nm != 'Qdit']))
    ops, sp, named = G.family(fam)
    maxN = {2: 6, 3: 4, 4: 3}.get(sp.d, 3)
    if small:
        maxN = {2: 6, 3: 5, 4: 4}.get(sp.d, 3)
    N = data.draw(st.sampled_from([n for n in [3, 4, 5, 2, 6] if n <= maxN]))
    terms = HG.draw_hamiltonian(data, fam, N, tier)
    adm = [n for n in G.admissible_charges(sp, N) if G.sector_dim(sp, N, n) >= 2] or G.admissible_charges(sp, N)
    n = list(data.draw(st.sampled_from(adm)))
    return {'fam': fam, 'N': N, 'terms': terms, 'n': n, 'seed': data.draw(st.integers(0, 9999)),
            'method': data.draw(st.sampled_from(['1site', '2site', '12site'])), 'order': data.draw(st.sampled_from(['2nd', '4th', '2nd'])),
            'nsplit': data.draw(st.sampled_from([1, 1, 2])), 'precompute': data.draw(st.sampled_from([False, False, True])),
            'hermitian_flag': data.draw(st.booleans()), 'hscale': data.draw(st.sampled_from([1, 1, 2, 0.5]))}


def draw_exact(data, tier):
    from hypothesis import strategies as st
    case = draw_common(data, tier)
    nsn = data.draw(st.sampled_from([1, 2, 3]))
    t, times = 0.0, [data.draw(st.sampled_from([0.0, 0.0, 0.3]))]
    for _ in range(nsn):
        times.append(round(times[-1] + data.draw(st.sampled_from([0.1, 0.25, 0.07, 0.2])), 6))
    case.update({'times': times, 'dt': data.draw(st.sampled_from([0.1, 0.03, 0.06, 0.5, 0.11])), 'u': data.draw(st.sampled_from(US)),
                 'normalize': data.draw(st.booleans()), 'subtract_E': data.draw(st.sampled_from([False, False, True])),
                 'yield_initial': data.draw(st.sampled_from([False, True])), 'gauge': data.draw(st.sampled_from(['first', 'last', 'balance'])),
                 'factor': data.draw(st.sampled_from([1, 1, 2.5, 0.5])), 'single_time': False})
    if nsn == 1 and times[0] == 0.0 and data.draw(st.booleans()):
        case['single_time'] = True
    return case


def hamiltonian(case, terms=None):
    terms = terms or case['terms']
    groups = [terms] if case['nsplit'] == 1 else HG.split_terms(terms, case['nsplit'])
    for g in groups:
        if np.linalg.norm(HG.dense_h(g, case['fam'], case['N'])) < 1e-12:
            raise Reject('zero_operator')       # terms cancel: generate_mpo returns an MPO without virtual charges, not a generator
    sc = case.get('hscale', 1)      # a scalar kept in the factor of the MPO
    if case['nsplit'] == 1:
        return sc * HG.build_mpo(terms, case['fam'], case['N'])
    return [sc * HG.build_mpo(g, case['fam'], case['N']) for g in groups]


def full_state(case):
    ops, sp, named = G.family(case['fam'])
    C.reseed_backend(case['seed'])
    ten = yastn.rand(sp.config, legs=[sp.leg] * case['N'], n=tuple(case['n']), dtype='complex128')
    if len(ten.get_blocks_charge()) == 0:
        return None
    psi = mps.mps_from_tensor(ten, canonize=case.get('gauge', 'first'))
    f = case.get('factor', 1)
    return f * psi if f != 1 else psi


def check_out(out, t0, t1, dt_req, k):
    if abs(out.ti - t0) > 1e-12 or abs(out.tf - t1) > 1e-10:
        raise Violation('tdvp:times', f'snapshot {k}: ti, tf = {out.ti}, {out.tf}; requested {t0}, {t1}')
    if abs(out.steps * out.dt - (t1 - t0)) > 1e-10 or out.dt > dt_req * (1 + 1e-9):
        raise Violation('tdvp:steps_dt', f'snapshot {k}: steps * dt = {out.steps * out.dt} for interval {t1 - t0}; dt = {out.dt}, requested <= {dt_req}')
    if out.steps < 1 or (out.steps > 1 and (t1 - t0) / (out.steps - 1) <= dt_req * (1 - 1e-9)):
        raise Violation('tdvp:steps_not_minimal', f'snapshot {k}: {out.steps} steps although {out.steps - 1} would respect dt <= {dt_req}')


def complete_sides(v, mask, d, N):
    """True when at every bond the Schmidt basis of v is complete on the left or on the right (within the charge sector).

    The projector-splitting integrator is exact (not merely O(dt^p)) exactly in this situation: every backward step then has the same
    projected generator as one of its neighbouring forward steps and cancels it, leaving one exact step with the full H.  In symmetric
    sectors a bond may be left-complete in one charge block and right-complete in another; then only the convergence order is checked."""
    for b in range(1, N):
        M = v.reshape(d ** b, d ** (N - b))
        K = mask.reshape(d ** b, d ** (N - b))
        s = np.linalg.svd(M, compute_uv=False)
        rank = int((s > 1e-10 * max(s[0], 1e-300)).sum())
        if rank != int(K.any(axis=1).sum()) and rank != int(K.any(axis=0).sum()):
            return False
    return True


def canonical_to_first(psi, strict):
    if psi.pC is not None:
        return False
    sites = range(psi.N) if strict else range(1, psi.N)     # without normalisation a decaying norm may sit in the first tensor
    return all(psi.is_canonical(to='first', n=n, tol=1e-8) for n in sites)


def run_exact(case, dt, psi, Hd, v0, mask, sp, tol):
    """One tdvp_ run over the whole time grid; returns the largest relative deviation from the dense evolution (bookkeeping checked on the way)."""
    u = cxu(case['u'])
    H = hamiltonian(case)
    times = case['times']
    targ = times[1] if case['single_time'] else tuple(times)
    opts_expmv = {'hermitian': True, 'tol': 1e-12} if case['hermitian_flag'] else {'tol': 1e-12}
    real_time = isinstance(u, complex) and u.real == 0
    worst = 0.0
    it = mps.tdvp_(psi, H, times=targ, dt=dt, u=u, method=case['method'], order=case['order'], opts_expmv=opts_expmv,
                   opts_svd={'tol': 1e-14}, normalize=case['normalize'], subtract_E=case['subtract_E'], precompute=case['precompute'],
                   yield_initial=case['yield_initial'])
    k = 0
    first = True
    for out in it:
        if case['yield_initial'] and first:
            first = False
            if out.steps != 0 or abs(out.tf - times[0]) > 1e-12 or abs(out.ti - times[0]) > 1e-12:
                raise Violation('tdvp:yield_initial', f'initial yield is {out}')
            continue
        first = False
        t0, t1 = times[k], times[k + 1]
        check_out(out, t0, t1, dt, k)
        if out.time_independent is not True:
            raise Violation('tdvp:time_independent_flag', f'{out}')
        v = G.mps_dense(psi, sp)
        ref = sla.expm(-u * (t1 - times[0]) * Hd) @ v0
        if case['normalize']:
            ref = ref / np.linalg.norm(ref)
        if np.linalg.norm(v[~mask]) > 1e-10 * max(1.0, np.linalg.norm(v)):
            raise Violation('tdvp:left_sector', f'snapshot {k}: weight outside the charge sector')
        if not canonical_to_first(psi, strict=case['normalize'] or real_time):
            raise Violation('tdvp:not_canonical', f'snapshot {k}: not canonical to the first site')
        if case['subtract_E']:
            # H -> H - E(t): the result differs by a scalar (a phase for real time); compare directions
            c = np.vdot(ref, v) / np.vdot(ref, ref)
            err = np.linalg.norm(v - c * ref) / max(np.linalg.norm(ref) * abs(c), 1e-300)
            if real_time and abs(np.linalg.norm(v) / np.linalg.norm(ref) - 1) > 1e-8:
                raise Violation('tdvp:subtract_E_norm', f'snapshot {k}: real-time evolution with subtract_E changed the norm by a factor {np.linalg.norm(v) / np.linalg.norm(ref)}')
        else:
            err = np.linalg.norm(v - ref) / max(np.linalg.norm(ref), 1e-300)
        worst = max(worst, err)
        if tol is not None and err > tol:
            raise Violation(f"tdvp:not_exact:{case['method']}", f'snapshot {k} (t = {t1}): relative deviation from expm(-u t H) psi0 = {err:.3e}')
        if case['normalize'] and abs(np.linalg.norm(v) - 1) > 1e-9:
            raise Violation('tdvp:not_normalised', f'snapshot {k}: norm {np.linalg.norm(v)}')
        k += 1
    if k != len(times) - 1:
        raise Violation('tdvp:snapshot_count', f'{k} snapshots yielded for {len(times) - 1} intervals')
    return worst


def execute_exact(case):
    fam, N = case['fam'], case['N']
    ops, sp, named = G.family(fam)
    Hd = case.get('hscale', 1) * HG.dense_h(case['terms'], fam, N)
    mask = G.sector_mask(sp, N, case['n'])
    psi = full_state(case)
    if psi is None:
        raise Reject('zero_random_state')
    v0 = G.mps_dense(psi, sp)
    u = cxu(case['u'])
    labels = ['family:%s:%s' % (G.FAMILIES[fam][0], G.FAMILIES[fam][1]['sym']), 'method:' + case['method'], 'order:' + case['order'],
              'u:' + ('real_time' if isinstance(u, complex) and u.real == 0 else 'imaginary' if not isinstance(u, complex) else 'complex'),
              'gauge:' + case['gauge'], 'N:%d' % N]
    complete = complete_sides(v0, mask, sp.d, N)
    try:
        if complete:
            labels.append('complete_bases:exact_to_1e-9')
            run_exact(case, case['dt'], psi, Hd, v0, mask, sp, 1e-9)
        else:
            # splitting error O(dt^p) remains: it must shrink at the stated order when dt is halved.  The requested grid is run once for
            # the bookkeeping; the order is probed on the single interval [t0, t_end] with step sizes T/k, T/2k(, T/4k).
            p = 2 if case['order'] == '2nd' else 4
            run_exact(case, case['dt'], psi, Hd, v0, mask, sp, None)
            T = case['times'][-1] - case['times'][0]
            k = max(1, math.ceil(T / case['dt'] - 1e-9))
            one = dict(case, times=[case['times'][0], case['times'][-1]], single_time=False)
            es = [run_exact(one, T / (k * m), full_state(case), Hd, v0, mask, sp, None) for m in (1, 2)]
            if es[0] > 1e-3:
                labels.append('mixed_bases:outside_window')
            elif es[0] > 1e-8 and es[1] > es[0] / 2 ** (p - 0.5):
                es.append(run_exact(one, T / (k * 4), full_state(case), Hd, v0, mask, sp, None))
                if es[2] > es[1] / 2 ** (p - 0.5) and es[1] > 1e-9:
                    raise Violation(f"tdvp:order:{case['method']}:{case['order']}",
                                    f'saturated state, halving dt = {T / k} twice reduced the deviation from exp(-u t H) psi0 only as {es[0]:.3e}, {es[1]:.3e}, {es[2]:.3e}')
                labels.append('mixed_bases:order_checked_3pt')
            else:
                labels.append('mixed_bases:order_checked' if es[0] > 1e-8 else 'mixed_bases:exact_anyway')
    except YastnError as e:
        raise Violation('tdvp:unexpected_YastnError', str(e))
    for f_ in ('normalize', 'subtract_E', 'precompute', 'yield_initial', 'hermitian_flag'):
        if case[f_]:
            labels.append(f_)
    nt = int(mask.sum()) >= 6 and len(case['times']) >= 3
    return Res(labels=labels, nontrivial=bool(nt))


# ---- conservation ---------------------------------------------------------------------------------------------------------

def draw_conserve(data, tier):
    from hypothesis import strategies as st
    case = draw_common(data, tier, small=True)
    case.update({'D': data.draw(st.sampled_from([2, 3, 4, 2])), 'dt': data.draw(st.sampled_from([0.05, 0.1, 0.02])),
                 'nsteps': data.draw(st.sampled_from([3, 4, 6])), 'normalize': data.draw(st.booleans()), 'dtype': 'complex128'})
    return case


def execute_conserve(case):
    fam, N = case['fam'], case['N']
    ops, sp, named = G.family(fam)
    Hd = case.get('hscale', 1) * HG.dense_h(case['terms'], fam, N)
    nH = max(np.linalg.norm(Hd, 2), 1e-12)
    I = mps.product_mpo(ops.I(), N=N)
    C.reseed_backend(case['seed'])
    try:
        psi = mps.random_mps(I, n=tuple(case['n']), D_total=case['D'], dtype='complex128')
    except YastnError as e:
        if 'zero state' in str(e):
            raise Reject('zero_random_state')
        raise
    psi.canonize_(to='first', normalize=True)
    v0 = G.mps_dense(psi, sp)
    E0 = np.vdot(v0, Hd @ v0).real
    H = hamiltonian(case)
    labels = ['family:%s:%s' % (G.FAMILIES[fam][0], G.FAMILIES[fam][1]['sym']), 'method:' + case['method'], 'order:' + case['order']]
    T = case['dt'] * case['nsteps']
    times = tuple(round(case['dt'] * k, 10) for k in range(case['nsteps'] + 1))
    try:
        for k, out in enumerate(mps.tdvp_(psi, H, times=times, dt=case['dt'], u=1j, method=case['method'], order=case['order'],
                                          opts_expmv={'hermitian': True, 'tol': 1e-12}, opts_svd={'tol': 1e-14}, normalize=case['normalize'],
                                          precompute=case['precompute'])):
            v = G.mps_dense(psi, sp)
            nv = np.linalg.norm(v)
            if abs(nv - 1) > 1e-8:
                raise Violation(f"tdvp:norm_not_conserved:{case['method']}", f'after step {k + 1}: norm {nv}')
            E = np.vdot(v, Hd @ v).real / nv ** 2
            if abs(E - E0) > 1e-8 * max(1.0, nH):
                raise Violation(f"tdvp:energy_not_conserved:{case['method']}", f'after step {k + 1}: <H> = {E}, initially {E0}')
    except YastnError as e:
        raise Violation('tdvp:unexpected_YastnError', str(e))
    return Res(labels=labels, nontrivial=case['nsteps'] >= 3)


# ---- order of convergence for time-dependent generators ---------------------------------------------------------------------

def draw_order(data, tier):
    from hypothesis import strategies as st
    case = draw_common(data, tier)
    case['method'] = data.draw(st.sampled_from(['1site', '2site']))
    case['order'] = data.draw(st.sampled_from(['2nd', '4th']))
    case['terms1'] = HG.draw_hamiltonian(data, case['fam'], case['N'], tier, complex_ok=False)
    case.update({'T': data.draw(st.sampled_from([0.4, 0.8])), 'dt': data.draw(st.sampled_from([0.2, 0.4, 0.1])),
                 'omega': data.draw(st.sampled_from([3.0, 5.0, 2.0])), 'gauge': 'first', 'factor': 1,
                 'frac': data.draw(st.sampled_from([0.3, 0.0, 0.3, 0.4])),     # requested dt = T / (k - frac): does not divide the interval
                 'refine': data.draw(st.sampled_from(['dt', 'grid', 'grid_fixed_dt']))})   # how the actual step is refined (see execute_order)
    return case


def execute_order(case):
    fam, N = case['fam'], case['N']
    ops, sp, named = G.family(fam)
    H0d = HG.dense_h(case['terms'], fam, N)
    H1d = HG.dense_h(case['terms1'], fam, N)
    if min(np.linalg.norm(H0d), np.linalg.norm(H1d)) < 1e-12:
        raise Reject('zero_operator')
    H0 = HG.build_mpo(case['terms'], fam, N)
    H1 = HG.build_mpo(case['terms1'], fam, N)
    w = case['omega']
    f = lambda t: math.sin(w * t) + 0.5
    psi0 = full_state(case)
    if psi0 is None:
        raise Reject('zero_random_state')
    psi0.canonize_(to='first', normalize=True)
    v0 = G.mps_dense(psi0, sp)
    T = case['T']
    # reference: 4th-order commutator-free Magnus integrator with 400 sub-steps (error ~ 1e-11, far below the window)
    nsub = 400
    ref = v0.copy()
    h = T / nsub
    a1, a2 = (3 - 2 * math.sqrt(3)) / 12, (3 + 2 * math.sqrt(3)) / 12
    c1, c2 = 0.5 - math.sqrt(3) / 6, 0.5 + math.sqrt(3) / 6
    for k in range(nsub):
        A1 = H0d + f((k + c1) * h) * H1d
        A2 = H0d + f((k + c2) * h) * H1d
        ref = sla.expm(-1j * h * (a2 * A1 + a1 * A2)) @ ref
        ref = sla.expm(-1j * h * (a1 * A1 + a2 * A2)) @ ref
    frac = case.get('frac', 0.0)

    def err_at(dt):
        # dt = T / k is turned into the request T / (k - frac) (0 <= frac < 0.5): tdvp_ must still take k equal steps of T / k,
        # also after halving (2k - frac rounds up to 2k), and evaluate H(t) at the mid-points of the steps it actually takes
        k = max(1, int(round(T / dt)))
        psi = psi0.copy()
        Ht = lambda t: [H0, f(t) * H1]
        refine = case.get('refine', 'dt')
        if refine == 'dt':
            req, times, per = (T / (k - frac) if k - frac > 0 else dt), (0, T), k
        else:
            # the step is refined through the snapshot grid: k snapshots, each reached in ONE step because the requested dt is larger than
            # the spacing (1.7 x spacing, or a fixed 10 T); "dt is adjusted down to reach the next snapshot", so the scheme must still
            # converge at its order in the actual step T / k
            times, per = tuple(T * j / k for j in range(k + 1)), 1
            req = 1.7 * T / k if refine == 'grid' else 10.0 * T
        for out in mps.tdvp_(psi, Ht, times=times, dt=req, u=1j, method=case['method'], order=case['order'],
                             opts_expmv={'hermitian': True, 'tol': 1e-13}, opts_svd={'tol': 1e-14}, normalize=True):
            if out.time_independent is not False:
                raise Violation('tdvp:time_independent_flag', f'{out} for a callable H')
            if out.steps != per or abs(out.dt - T / k) > 1e-12:
                raise Violation('tdvp:steps_dt', f'requested dt = {req} towards the next snapshot of {times[:3]}...: {out.steps} steps of {out.dt}, expected {per} steps of {T / k}')
        return np.linalg.norm(G.mps_dense(psi, sp) - ref)

    p = 2 if case['order'] == '2nd' else 4
    labels = ['order:' + case['order'], 'method:' + case['method'], 'dt_divides_interval' if frac == 0 else 'dt_does_not_divide_interval', 'refine:' + case.get('refine', 'dt')]
    # step sizes dt, dt/2, dt/4, ...: the first one whose error enters the window [1e-6, 1e-3] is compared with its half; a low ratio
    # must be confirmed by the next halving (two consecutive ratios below 2^(p-1/2)) before it counts, which keeps pre-asymptotic
    # flukes at coarse steps from raising an alarm
    dt, e0 = case['dt'], None
    hist = []
    for _ in range(7):
        e0 = err_at(dt)
        hist.append(e0)
        if e0 <= 1e-3:
            break
        dt = dt / 2
    if e0 > 1e-3 and len(hist) >= 3:
        # the window was not reached after 6 halvings (>= 128 steps): a scheme of order p would be far below 1e-3 by now; if the last two
        # halvings both gained less than 2^(p-1/2) the error does not decrease at the stated order
        r1, r2 = hist[-3] / hist[-2], hist[-2] / hist[-1]
        if r1 < 2 ** (p - 0.5) and r2 < 2 ** (p - 0.5):
            raise Violation(f"tdvp:order:{case['order']}", f'after {len(hist) - 1} halvings of the step (refinement: {case.get("refine", "dt")}) the error is still {e0:.3e}; last ratios {r1:.2f}, {r2:.2f} (expected ~ {2 ** p})')
    if not (1e-6 <= e0 <= 1e-3):
        return Res(labels=labels + ['order_skipped_outside_window'], nontrivial=False)
    e1 = err_at(dt / 2)
    if e1 > e0 / 2 ** (p - 0.5):
        e2 = err_at(dt / 4)
        if e2 > e1 / 2 ** (p - 0.5):
            raise Violation(f"tdvp:order:{case['order']}", f'halving dt = {dt} twice reduced the error only as {e0:.3e}, {e1:.3e}, {e2:.3e} (expected factors ~ {2 ** p}, required >= {2 ** (p - 0.5):.2f})')
        labels.append('order_checked_3pt')
    return Res(labels=labels + ['order_checked'], nontrivial=True)


def parts(tier):
    return [HypPart('exact', draw_exact, execute_exact, {'quick': 200, 'thorough': 4000}),
            HypPart('conserve', draw_conserve, execute_conserve, {'quick': 64, 'thorough': 2000}),
            HypPart('order', draw_order, execute_order, {'quick': 32, 'thorough': 600})]
