"""C11 - PEPS gates and their application act exactly as the dense operators.

Part 'gates'    : every gate constructor of fpeps.gates (hopping, Ising, Heisenberg, t-J, Coulomb, occupation, field, gate_nn_exp, gate_local_exp)
                  with generated parameters and real / imaginary / complex steps, for every operator family x symmetry that supports it: the
                  two-site (one-site) operator rebuilt from Gate.G equals scipy.linalg.expm(-step H) of the Jordan-Wigner Hamiltonian.
Part 'circuits' : finite PEPS (<= 6 sites, open and cylinder), product states of any occupation or the identity purification, then generated gate
                  sequences: local gates, nearest-neighbour gates on every bond in both orientations (also across the cylinder seam), two-site
                  gates along a site path (identity fill-in), MPO gates (generate_mpo on 2-3 sites) along straight and bent paths. After every
                  gate to_tensor() equals the dense gate applied to the previous dense state; the initial product state equals the Kronecker
                  product of the local vectors up to a sign.
Part 'double'   : DoublePepsTensor from generated rank-5 tensors (all symmetries, fermionic flags, operator, charge swaps, the 8 allowed
                  transpositions): tensordot with a generated tensor over each pair of neighbouring legs, in both argument orders, equals
                  tensordot with fuse_layers(); fuse_layers commutes with transpose; legs / shape agree.
Part 'add'      : to_tensor(add(psi_1, .., psi_k, amplitudes)) == sum_j a_j to_tensor(psi_j) for circuit states on a common lattice.
"""
import numpy as np

from vlib import common as C
from vlib import mpsgen as G
from vlib import jw as JW
from vlib import pepsgen as PG
from vlib import program as P
from vlib.common import yastn, YastnError
from vlib.runner import HypPart, Res, Violation, Reject
import yastn.tn.fpeps as fpeps

ID = 'C11'
RULE = ("One case = one gate with parameters (gates), one initial state plus gate sequence (circuits), one DoublePepsTensor with a partner tensor "
        "and contraction (double), or one list of circuit states with amplitudes (add). Non-trivial: fermionic family with a gate on a bond that "
        "is not in lattice order or whose ends are not adjacent in the fermionic order, a path / MPO gate, an ancilla, a complex step; "
        "double: operator or charge swap present; add: >= 2 entangled states. Distinct by SHA-1 of the descriptor.")
ASSUMPTIONS = ["dense reference: Jordan-Wigner matrices of vlib/jw.py in the documented fermionic order (column by column), scipy.linalg.expm",
               "Peps.to_tensor() is the observer of the state (its sign convention - system legs before ancilla legs - is stated in vlib/pepsgen.py); "
               "it is cross-checked on product states here and against environments in C12",
               "tolerance 1e-10 relative to the norm of the state / gate"]

FAMS = [i for i, (nm, kw) in enumerate(G.FAMILIES) if nm != 'Qdit']


# ---- gates ------------------------------------------------------------------------------------------------------------------

def draw_gates(data, tier):
    from hypothesis import strategies as st
    fam = data.draw(st.sampled_from(FAMS))
    local = P.chance(data, 1, 3)
    return {'fam': fam, 'gate': PG.draw_gate_spec(data, fam, tier, local), 'local': local}


def execute_gates(desc):
    fam, g = desc['fam'], desc['gate']
    ops, sp, named = G.family(fam)
    labels = ['kind:' + g['kind'], 'family:%s:%s' % (G.FAMILIES[fam][0], G.FAMILIES[fam][1]['sym']),
              'step:' + ('real' if not isinstance(g['step'], dict) else 'imaginary' if g['step']['re'] == 0 else 'complex')]
    try:
        if desc['local']:
            gate = PG.build_gate(g, fam, [(0, 0)])
            if len(gate.G) != 1 or gate.G[0].ndim != 2:
                raise Violation('gates:format', f'local gate has {len(gate.G)} tensors of rank {[x.ndim for x in gate.G]}')
            got = sp.dense(gate.G[0])
            ref = PG.dense_gate(g, fam, [1, 1, 'obc'], [(0, 0)])
        else:
            gate = PG.build_gate(g, fam, [(0, 0), (0, 1)])
            if len(gate.G) != 2 or gate.G[0].ndim != 3 or gate.G[1].ndim != 3:
                raise Violation('gates:format', f'two-site gate has {len(gate.G)} tensors of rank {[x.ndim for x in gate.G]}')
            T = yastn.tensordot(gate.G[0], gate.G[1], axes=(2, 2))
            got = JW.tensor_to_matrix(T, sp, 2)
            ref = PG.dense_gate(g, fam, [1, 2, 'obc'], [(0, 0), (0, 1)])
    except YastnError as e:
        raise Violation('gates:unexpected_YastnError:' + g['kind'], str(e))
    err = np.linalg.norm(got - ref) / max(np.linalg.norm(ref), 1e-300)
    if err > 1e-10:
        raise Violation('gates:not_exponential:' + g['kind'], f'|G - expm(-step H)| / |expm| = {err:.3e}')
    return Res(labels=labels, nontrivial=True)


# ---- circuits ---------------------------------------------------------------------------------------------------------------

def draw_circuits(data, tier):
    from hypothesis import strategies as st
    fam = data.draw(st.sampled_from(FAMS))
    ops, sp, named = G.family(fam)
    lat = data.draw(st.sampled_from(PG.LATTICES))
    if sp.d ** (lat[0] * lat[1]) > 1024:
        lat = data.draw(st.sampled_from([l for l in PG.LATTICES if sp.d ** (l[0] * l[1]) <= 1024]))
    N = lat[0] * lat[1]
    purification = P.chance(data, 1, 4) and sp.d ** (2 * N) <= 70000
    occ = [data.draw(st.integers(0, sp.d - 1)) for _ in range(N)]
    return {'fam': fam, 'lat': lat, 'occ': occ, 'purification': purification, 'gates': PG.draw_circuit(data, fam, lat, tier)}


def run_circuit(desc, check=True):
    """Returns (psi, dense state, labels, nontrivial). With check=True every step is compared."""
    fam, lat = desc['fam'], desc['lat']
    ops, sp, named = G.family(fam)
    geom, psi = PG.product_state(fam, lat, desc['occ'], desc['purification'])
    idx = PG.index_of(lat)
    N = len(idx)
    fermionic = bool(np.any(sp.ferm)) if not isinstance(sp.ferm, bool) else sp.ferm
    labels = ['family:%s:%s' % (G.FAMILIES[fam][0], G.FAMILIES[fam][1]['sym']), 'lattice:%dx%d:%s' % tuple(lat),
              'purification' if desc['purification'] else 'pure']
    nt = desc['purification']
    try:
        v = PG.dense_state(psi, fam, lat, desc['purification'])
    except YastnError as e:
        raise Violation('circuits:to_tensor_raises', str(e))
    if check and not desc['purification']:
        ref = JW.kron_all([np.eye(sp.d)[:, [o]] for o in desc['occ']])
        if v.shape != ref.shape or min(np.linalg.norm(v - ref), np.linalg.norm(v + ref)) > 1e-12:
            raise Violation('circuits:product_state', 'to_tensor() of a product PEPS is not the Kronecker product of the local vectors (up to a sign)')
    for k, g in enumerate(desc['gates']):
        sites = [tuple(s) for s in g['sites']]
        try:
            gate = PG.build_gate(g, fam, sites)
            psi.apply_gate_(gate)
            got = PG.dense_state(psi, fam, lat, desc['purification'])
        except YastnError as e:
            raise Violation(f"circuits:unexpected_YastnError:{g['kind']}", f'gate {k} {g["kind"]} on {sites}: {e}')
        Gd = PG.dense_gate(g, fam, lat, sites)
        scale = max(np.linalg.norm(Gd, 2) * np.linalg.norm(v), 1e-300)     # errors are relative to |G| |v| (G v may be much smaller, even zero)
        v = Gd @ v
        what = 'local' if len(sites) == 1 else 'mpo' if g['kind'] == 'mpo' else 'path' if len(sites) > 2 else 'nn'
        ends = (sites[0], sites[-1])
        orient = ''
        if what == 'nn':
            orient = geom.nn_bond_dirn(*sites)
            seam = abs(sites[0][0] - sites[1][0]) > 1
            orient += ':seam' if seam else ''
        labels += [f'gate:{what}:{g["kind"]}'] + ([f'orientation:{orient}'] if orient else [])
        if len(sites) > 1:
            if fermionic and (abs(idx[ends[0]] - idx[ends[1]]) > 1 or idx[ends[0]] > idx[ends[1]]):
                nt = True
            if what in ('path', 'mpo'):
                nt = True
        if isinstance(g['step'], dict):
            nt = True
        if check:
            if got.shape != v.shape:
                raise Violation('circuits:shape', f'gate {k}: dense state of shape {got.shape}, expected {v.shape}')
            err = np.linalg.norm(got - v) / scale
            if err > 1e-10:
                sgn = np.linalg.norm(got + v) / scale
                raise Violation(f'circuits:state:{what}' + (':' + g['kind'] if what in ('nn', 'local') else '') + (':sign' if sgn < 1e-10 else ''),
                                f'after gate {k} ({g["kind"]} on {sites}, {orient}): |to_tensor - G v| / (|G| |v|) = {err:.3e}' + (' (overall sign)' if sgn < 1e-10 else ''))
            v = got      # continue from the state yastn holds (differences below tolerance do not accumulate)
        if np.linalg.norm(v) < 1e-9 * scale:
            labels.append('state_annihilated')      # e.g. (1 + H)|psi> = 0: what is left is rounding noise
            break
        bd = psi.get_bond_dimensions()
        if max([max(x) if hasattr(x, '__iter__') else x for x in bd.values()] + [1]) > 128:
            labels.append('bond_dimension_cap')     # apply_gate_ never truncates: repeated gates on one bond multiply its dimension
            break
    return psi, v, labels, nt


def execute_circuits(desc):
    psi, v, labels, nt = run_circuit(desc)
    return Res(labels=sorted(set(labels)), nontrivial=bool(nt))


# ---- DoublePepsTensor ----------------------------------------------------------------------------------------------------------

TRANS = [(0, 1, 2, 3), (1, 2, 3, 0), (2, 3, 0, 1), (3, 0, 1, 2), (0, 3, 2, 1), (1, 0, 3, 2), (2, 1, 0, 3), (3, 2, 1, 0)]
SWAP_AXES = ['b0', 'b1', 'b2', 'b3', 'b4', 'k0', 'k1', 'k2', 'k3', 'k4']


def draw_double(data, tier):
    from hypothesis import strategies as st
    cfg = P.draw_cfg(data, knobs=True)
    cfg['fusion'] = 'hard'
    P._CUR_POOL.clear()
    P.draw_charge_pool(data, cfg['sym'], tier)
    legs = [P.draw_table(data, cfg['sym'], tier, max_sectors=2, maxD=2) for _ in range(4)]
    # physical leg: charges that complete 1-2 combinations of virtual charges to total charge zero (site tensors carry no charge)
    sig = (-1, 1, 1, -1)
    phys = set()
    for _ in range(data.draw(st.integers(1, 2))):
        pick = [tuple(data.draw(st.sampled_from(lg['t']))) for lg in legs]
        phys.add(C.gneg(cfg['sym'], C.gsum(cfg['sym'], pick, sig)))
    phys = sorted(phys)
    legs.append({'t': [list(t) for t in phys], 'D': [data.draw(st.integers(1, 2)) for _ in phys]})
    extra = [P.draw_table(data, cfg['sym'], tier, max_sectors=2, maxD=2) for _ in range(2)]
    return {'cfg': cfg, 'legs': legs, 'extra': extra, 'same_bra': data.draw(st.booleans()), 'seed': data.draw(st.integers(0, 9999)),
            'op': data.draw(st.sampled_from([None, None, 'rand0', 'rand_charged', 'eye'])), 'swaps': [[data.draw(st.sampled_from(SWAP_AXES)), data.draw(st.integers(0, 5))]
                                                                                                       for _ in range(data.draw(st.integers(0, 3)))],
            'trans': data.draw(st.sampled_from(TRANS)), 'trans2': data.draw(st.sampled_from(TRANS)), 'pair': data.draw(st.sampled_from([(0, 1), (1, 2), (2, 3), (3, 0), (1, 0), (3, 2), (2, 1), (0, 3)])),
            'nextra': data.draw(st.sampled_from([1, 2, 1])), 'bpos': data.draw(st.integers(0, 2)), 'reverse': data.draw(st.booleans()),
            'bcharge': data.draw(st.integers(0, 5)), 'dtype': data.draw(st.sampled_from(['float64', 'complex128']))}


def execute_double(desc):
    config = C.make_config(desc['cfg'])
    sym = desc['cfg']['sym']
    mk = lambda tb, s: yastn.Leg(config, s=s, t=[tuple(t) for t in tb['t']], D=tb['D'])
    sig = (-1, 1, 1, -1, 1)
    legs = [mk(tb, s) for tb, s in zip(desc['legs'], sig)]
    C.reseed_backend(desc['seed'])
    ket = yastn.rand(config, legs=legs, dtype=desc['dtype'])
    bra = ket if desc['same_bra'] else yastn.rand(config, legs=legs, dtype=desc['dtype'])
    if len(ket.get_blocks_charge()) == 0 or len(bra.get_blocks_charge()) == 0:
        raise Reject('empty_site_tensor')
    box = C.charge_box(sym, 1)
    labels = ['sym:' + sym, 'fermionic:' + str(desc['cfg']['fermionic'])]
    try:
        T = fpeps.DoublePepsTensor(bra=bra, ket=ket)
        if desc['op'] is not None:
            pl = legs[4]
            if desc['op'] == 'eye':
                op = yastn.eye(config, legs=[pl, pl.conj()], isdiag=False)
            else:
                n = tuple(0 for _ in C.MODULI[sym]) if desc['op'] == 'rand0' else box[desc['bcharge'] % len(box)]
                op = yastn.rand(config, legs=[pl, pl.conj()], n=n, dtype=desc['dtype'])
                if len(op.get_blocks_charge()) == 0:
                    op = None
            if op is not None:
                T.set_operator_(op)
                labels.append('operator:' + desc['op'])
        for ax, ci in desc['swaps']:
            T.add_charge_swaps_(box[ci % len(box)], ax)
        if T.swaps:
            labels.append('charge_swaps')
        f0 = T.fuse_layers()
        T1 = T.transpose(desc['trans'])
        f1 = T1.fuse_layers()
        r1 = f0.transpose(desc['trans'])
        # get_legs() of the lazy object is the full product space of the ket and bra legs; the fused tensor holds the sectors that occur
        for la, lf in zip(T1.get_legs(), f1.get_legs()):
            da = dict(zip(la.t, la.D))
            if la.s != lf.s or any(t not in da or D > da[t] for t, D in zip(lf.t, lf.D)):
                raise Violation('double:legs', f'leg {lf} of fuse_layers() is not contained in the leg {la} reported by the DoublePepsTensor')
        if (f1 - r1).norm() > 1e-12 * max(1.0, r1.norm()):
            raise Violation('double:transpose', 'fuse_layers() does not commute with transpose')
        T2 = T1.transpose(desc['trans2'])
        if (T2.fuse_layers() - r1.transpose(desc['trans2'])).norm() > 1e-12 * max(1.0, r1.norm()):
            raise Violation('double:transpose', 'fuse_layers() does not commute with two transposes')
        # partner tensor with the two contracted legs at generated positions
        i, j = desc['pair']
        lfs = T1.get_legs()
        ex = [mk(tb, 1 if k == 0 else -1) for k, tb in enumerate(desc['extra'])][:desc['nextra']]
        pos = min(desc['bpos'], len(ex))
        blegs = ex[:pos] + [lfs[i].conj(), lfs[j].conj()] + ex[pos:]
        if any(len(l.t) == 0 for l in blegs):
            raise Reject('empty_partner')
        nb = C.gsum(sym, [l.t[desc['bcharge'] % len(l.t)] for l in blegs], [l.s for l in blegs])     # a charge for which at least one block exists
        b = yastn.rand(config, legs=blegs, n=nb, dtype=desc['dtype'])
        if len(b.get_blocks_charge()) == 0:
            raise Reject('empty_partner')
        ia, ib = (i, j), (pos, pos + 1)
        if desc['reverse']:
            ref = yastn.tensordot(b, f1, axes=(ib, ia))
            got = yastn.tensordot(b, T1, axes=(ib, ia))
            got2 = T1.tensordot(b, axes=(ib, ia), reverse=True)
        else:
            ref = yastn.tensordot(f1, b, axes=(ia, ib))
            got = yastn.tensordot(T1, b, axes=(ia, ib))
            got2 = T1.tensordot(b, axes=(ia, ib))
    except YastnError as e:
        raise Violation('double:unexpected_YastnError', str(e))
    for name, x in (('yastn.tensordot', got), ('method', got2)):
        if x.ndim != ref.ndim or tuple(x.s) != tuple(ref.s) or tuple(x.n) != tuple(ref.n):
            raise Violation('double:tensordot_legs', f'{name}: rank / signature / charge of the lazy contraction differ from the fused one')
        if (x - ref).norm() > 1e-11 * max(1.0, ref.norm()):
            raise Violation('double:tensordot:' + ('reverse' if desc['reverse'] else 'forward'), f'{name} over axes {ia}: lazy two-layer contraction differs from tensordot with fuse_layers() by {(x - ref).norm():.3e}')
    labels += ['pair:%d%d' % (i, j), 'reverse' if desc['reverse'] else 'forward', 'trans:' + ''.join(map(str, desc['trans']))]
    return Res(labels=labels, nontrivial=bool(T.swaps) or T.op is not None)


# ---- add ---------------------------------------------------------------------------------------------------------------------

def draw_add(data, tier):
    from hypothesis import strategies as st
    fam = data.draw(st.sampled_from(FAMS))
    ops, sp, named = G.family(fam)
    lat = data.draw(st.sampled_from([l for l in PG.LATTICES if sp.d ** (l[0] * l[1]) <= 1024]))
    N = lat[0] * lat[1]
    k = data.draw(st.sampled_from([2, 3, 2, 1]))
    purification = P.chance(data, 1, 5) and sp.d ** (2 * N) <= 5000
    occ0 = [data.draw(st.integers(0, sp.d - 1)) for _ in range(N)]
    states = []
    for _ in range(k):
        # the same total charge for every summand: permute the occupations
        occ = list(data.draw(st.permutations(occ0)))
        states.append({'occ': occ, 'gates': PG.draw_circuit(data, fam, lat, tier, max_gates=3, kinds=('nn', 'nn', 'local'))})
    amps = [data.draw(st.sampled_from([1, -1, 0.5, 2, {'re': 0, 'im': 1}, 0])) for _ in range(k)]
    return {'fam': fam, 'lat': lat, 'purification': purification, 'states': states, 'amps': amps if not P.chance(data, 1, 5) else None}


def execute_add(desc):
    fam, lat = desc['fam'], desc['lat']
    psis, vs = [], []
    for s in desc['states']:
        psi, v, labels, nt = run_circuit({'fam': fam, 'lat': lat, 'occ': s['occ'], 'purification': desc['purification'], 'gates': s['gates']}, check=False)
        psis.append(psi)
        vs.append(v)
    amps = None if desc['amps'] is None else [C.cplx(a) if isinstance(a, dict) else a for a in desc['amps']]
    try:
        tot = fpeps.add(*psis, amplitudes=amps)
        got = PG.dense_state(tot, fam, lat, desc['purification'])
    except YastnError as e:
        if not desc['purification'] and 'charge' in str(e).lower():
            raise Reject('summands_with_different_offsets')
        raise Violation('add:unexpected_YastnError', str(e))
    ref = sum((1 if amps is None else a) * v for a, v in zip(amps or [1] * len(vs), vs))
    if got.shape != ref.shape:
        raise Reject('summands_with_different_offset_legs')     # documented caveat of to_tensor / product_peps
    scale = max(max(np.linalg.norm(v) for v in vs), 1e-300)
    if np.linalg.norm(got - ref) > 1e-10 * scale:
        raise Violation('add:state', f'|to_tensor(add) - sum a_j to_tensor(psi_j)| = {np.linalg.norm(got - ref):.3e} (scale {scale:.3e})')
    return Res(labels=['k:%d' % len(vs), 'amplitudes' if amps is not None else 'no_amplitudes', 'lattice:%dx%d:%s' % tuple(lat)],
               nontrivial=len(vs) >= 2 and all(len(s['gates']) for s in desc['states']))


def parts(tier):
    return [HypPart('gates', draw_gates, execute_gates, {'quick': 1200, 'thorough': 30000}),
            HypPart('circuits', draw_circuits, execute_circuits, {'quick': 500, 'thorough': 12000}),
            HypPart('double', draw_double, execute_double, {'quick': 1200, 'thorough': 30000}),
            HypPart('add', draw_add, execute_add, {'quick': 200, 'thorough': 5000})]
