"""C08 - Canonical forms preserve the state; truncation is honest.

Part 'gauge'   : Hypothesis rule-based state machine over an MPS or MPO: canonize_, orthogonalize_site_, absorb_central_,
                 diagonalize_central_ / truncate_ with non-binding limits, with normalize True/False, in any alternation. After every
                 rule the represented dense state (NumPy contraction incl. central block and factor) equals the model: unchanged for
                 normalize=False, the same direction (no phase freedom) for normalize=True, unit norm after normalising sweeps;
                 canonical sweeps leave isometries; norm(), Schmidt values and entropies equal numpy.linalg.svd of the dense state.
Part 'truncate': states prepared in the documented opposite canonical form, truncate_ with BINDING limits: the returned number
                 equals the true relative error, the factor equals the norm kept, and the state equals an independent sector-wise
                 sequential dense truncation (when no tie sits at a cut).
"""
import math

import numpy as np

from vlib import common as C
from vlib import mpsgen as G
from vlib import program as P
from vlib.common import yastn, YastnError, gsum
from vlib.runner import HypPart, MachinePart, Res, Violation, Reject, record
import yastn.tn.mps as mps

ID = 'C08'
RULE = ("gauge: one history of gauge moves; non-trivial when it contains >= 1 direction change and >= 1 normalize=False move, or a "
        "rank-deficient / degenerate spectrum. truncate: one state + limits; non-trivial when truncation discards weight at >= 2 cuts. "
        "Distinct by SHA-1 of the descriptor.")
ASSUMPTIONS = ["dense observer: vlib/mpsgen.mps_dense (includes central block and factor; to_tensor() is not used as it ignores pC)",
               "tolerance 1e-10 relative", "truncate_ is given binding limits only on states in the opposite canonical form, as documented"]

TOL = 1e-10
NONBIND = [{'tol': 1e-14}, {'D_total': 4096}, {'tol': 0}, {'D_block': 4096, 'tol': 1e-15}]


# ---- program interpreter ------------------------------------------------------------------------------------------------

def build_object(desc):
    fam, N = desc['fam'], desc['N']
    if desc['kind'] == 'mps':
        psi = G.build_state(desc['state'], fam, N)
    elif desc['kind'] == 'mpo':
        psi = G.build_mpo(desc['state'], fam, N)
    else:   # direct sum of a state with itself and a product: rank-deficient, exactly degenerate spectra
        a = G.build_state(desc['state'], fam, N)
        if a is None:
            return None
        psi = mps.add(a, a, a, amplitudes=[1, 1, 0.5])
    return psi


def schmidt_dense(v, d, N, nr_phys):
    """Normalised Schmidt values across every cut (0..N) from the dense state."""
    dd = d if nr_phys == 1 else d * d
    if nr_phys == 2:
        # matrix (rows, cols) -> order sites as (k0 b0 k1 b1 ...)
        T = v.reshape((d,) * (2 * N))
        T = T.transpose([x for n in range(N) for x in (n, N + n)]).reshape(-1)
    else:
        T = v
    nrm = np.linalg.norm(T)
    out = []
    for b in range(N + 1):
        M = (T / nrm).reshape(dd ** b, dd ** (N - b))
        out.append(np.linalg.svd(M, compute_uv=False))
    return out


def run_program(desc):
    """Returns stats. Raises Violation."""
    fam, N = desc['fam'], desc['N']
    ops, sp, named = G.family(fam)
    psi = build_object(desc)
    if psi is None:
        raise Reject('zero_random_state')
    model = G.mps_dense(psi, sp)
    nrm0 = np.linalg.norm(model)
    if nrm0 < 1e-12:
        raise Reject('zero_state')
    stats = {'dir_changes': 0, 'nonorm': 0, 'steps': 0, 'last_to': None}

    def compare(where, normalized, unit):
        nonlocal model, psi
        cur = G.mps_dense(psi, sp)
        nc, nm = np.linalg.norm(cur), np.linalg.norm(model)
        if nc < 1e-14:
            raise Violation('gauge:state_lost', f'after {where}: the represented state vanished')
        if np.linalg.norm(cur / nc - model / nm) > TOL * 10:
            raise Violation('gauge:state_changed', f'after {where}: direction of the state changed by {np.linalg.norm(cur / nc - model / nm):.3e}')
        if not normalized:
            if abs(nc - nm) > TOL * nm:
                raise Violation('gauge:norm_changed', f'after {where} with normalize=False: norm {nc} vs {nm}')
        elif unit:
            if abs(nc - 1) > TOL:
                raise Violation('gauge:not_unit_norm', f'after {where} with normalize=True: norm {nc}')
        model = cur if normalized else model
        if not (isinstance(psi.factor, (int, float, np.floating)) or np.isrealobj(psi.factor)) or psi.factor < 0:
            raise Violation('gauge:factor', f'after {where}: factor {psi.factor!r} is not a non-negative real number')

    for st_ in desc['steps']:
        op = st_['op']
        stats['steps'] += 1
        if 'to' in st_:
            if stats['last_to'] is not None and stats['last_to'] != st_['to']:
                stats['dir_changes'] += 1
            stats['last_to'] = st_['to']
        if st_.get('normalize') is False:
            stats['nonorm'] += 1
        try:
            if op == 'canonize':
                psi.canonize_(to=st_['to'], normalize=st_['normalize'])
                compare(op, st_['normalize'], True)
                if not psi.is_canonical(to=st_['to'], tol=1e-10) or psi.pC is not None:
                    raise Violation('gauge:not_canonical', f"after canonize_(to={st_['to']}) is_canonical is False")
                check_isometries(psi, st_['to'], sp)
            elif op == 'orthogonalize_site':
                if psi.pC is not None:
                    continue
                psi.orthogonalize_site_(n=st_['n'] % N, to=st_['to'], normalize=st_['normalize'])
                compare(op, st_['normalize'], False)
                check_isometries(psi, st_['to'], sp, only=st_['n'] % N)
            elif op == 'absorb':
                psi.absorb_central_(to=st_['to'])
                compare(op, False, False)
                if psi.pC is not None:
                    raise Violation('gauge:central_left', 'absorb_central_ left a central block')
            elif op == 'diagonalize':
                disc = psi.diagonalize_central_(opts_svd=NONBIND[st_['opts']], normalize=st_['normalize'])
                compare(op, st_['normalize'], False)
                if abs(disc) > 1e-7:
                    raise Violation('gauge:nonbinding_discards', f'diagonalize_central_ with non-binding limits reports discarded weight {disc}')
            elif op == 'truncate':
                disc = psi.truncate_(to=st_['to'], opts_svd=NONBIND[st_['opts']], normalize=st_['normalize'])
                compare(op, st_['normalize'], True)
                if abs(disc) > 1e-7:
                    raise Violation('gauge:nonbinding_discards', f'truncate_ with non-binding limits reports discarded weight {disc}')
                if not psi.is_canonical(to=st_['to'], tol=1e-9):
                    raise Violation('gauge:not_canonical', f"after truncate_(to={st_['to']}) is_canonical is False")
            elif op == 'reverse':
                from checks.c06_mps_algebra import rev_dense
                psi = psi.reverse_sites()
                model = rev_dense(model, sp.d, N, psi.nr_phys == 2)
                compare(op, False, False)
            elif op == 'copy':
                psi = getattr(psi, st_['how'])()
                compare(op, False, False)
            elif op == 'observe':
                n1 = psi.norm()
                nm = np.linalg.norm(G.mps_dense(psi, sp))
                if abs(n1 - nm) > TOL * nm:
                    raise Violation('observe:norm', f'norm() = {n1}, dense norm {nm}')
                sv = psi.get_Schmidt_values()
                ref = schmidt_dense(G.mps_dense(psi, sp), sp.d, N, psi.nr_phys)
                if len(sv) != N + 1:
                    raise Violation('observe:schmidt_count', f'{len(sv)} spectra for {N} sites')
                for b, (s, r) in enumerate(zip(sv, ref)):
                    got = np.sort(np.asarray(s.data))[::-1]
                    k = max(len(got), len(r))
                    a, c = np.zeros(k), np.zeros(k)
                    a[:len(got)] = got
                    c[:len(r)] = r
                    if np.max(np.abs(a - c)) > 1e-9:
                        raise Violation('observe:schmidt_values', f'cut {b}: {a[:6].tolist()} vs dense {c[:6].tolist()}')
                for alpha in (1, 2, 0.5):
                    ent = psi.get_entropy(alpha=alpha)
                    for b, (e, r) in enumerate(zip(ent, ref)):
                        p = r[r > 1e-12] ** 2
                        p = p / p.sum()
                        exp = float(-(p * np.log2(p)).sum()) if alpha == 1 else float(np.log2((p ** alpha).sum()) / (1 - alpha))
                        if abs(float(e) - exp) > 1e-7:
                            raise Violation('observe:entropy', f'cut {b} alpha {alpha}: {e} vs dense {exp}')
                compare('observers', False, False)      # observers must not change the state
        except YastnError as e:
            raise Violation(f'gauge:unexpected_YastnError:{op}', str(e))
    return stats


def check_isometries(psi, to, sp, only=None):
    """After a sweep every site tensor is an isometry in the stated direction (contracted densely)."""
    N = psi.N
    for n in ([only] if only is not None else range(N)):
        A = psi.A[n]
        lg = A.get_legs()
        X = A.to_numpy()
        if psi.nr_phys == 2:
            X = X.transpose(0, 1, 3, 2).reshape(X.shape[0], X.shape[1] * X.shape[3], X.shape[2])
        if to == 'last':
            M = X.reshape(-1, X.shape[2])
            G_ = M.conj().T @ M
        else:
            M = X.reshape(X.shape[0], -1)
            G_ = M @ M.conj().T
        if np.max(np.abs(G_ - np.eye(G_.shape[0]))) > 1e-9:
            raise Violation('gauge:not_isometry', f"site {n} is not an isometry towards '{to}' (deviation {np.max(np.abs(G_ - np.eye(G_.shape[0]))):.2e})")


def machine_factory(res, known, tier, state):
    from hypothesis import strategies as st
    from hypothesis.stateful import RuleBasedStateMachine, rule, initialize, precondition

    class GaugeMachine(RuleBasedStateMachine):
        def __init__(self):
            super().__init__()
            self.desc = None

        @initialize(data=st.data())
        def init(self, data):
            fam = G.draw_family(data, tier)
            ops, sp, named = G.family(fam)
            maxN = {2: 6, 3: 5, 4: 4}.get(sp.d, 4)
            N = data.draw(st.sampled_from([n for n in [3, 2, 4, 1, 5, 6] if n <= maxN]))
            kind = data.draw(st.sampled_from(['mps', 'mps', 'mpo', 'degenerate'])) if sp.d ** N <= 256 else 'mps'
            if kind == 'mpo' and sp.d ** (2 * N) > 5000:
                kind = 'mps'
            state_ = G.draw_mpo_desc(data, fam, N, tier) if kind == 'mpo' else G.draw_state_desc(data, fam, N, tier, kinds=('random', 'random', 'from_tensor', 'product'))
            self.desc = {'fam': fam, 'N': N, 'kind': kind, 'state': state_, 'steps': []}
            self.N = N
            self.pc = False

        @rule(to=st.sampled_from(['first', 'last']), normalize=st.booleans())
        def canonize(self, to, normalize):
            self.desc['steps'].append({'op': 'canonize', 'to': to, 'normalize': normalize})
            self.pc = False

        @precondition(lambda self: self.desc is not None and not self.pc)
        @rule(n=st.integers(0, 5), to=st.sampled_from(['first', 'last']), normalize=st.booleans())
        def orthogonalize_site(self, n, to, normalize):
            self.desc['steps'].append({'op': 'orthogonalize_site', 'n': n, 'to': to, 'normalize': normalize})
            self.pc = True

        @rule(to=st.sampled_from(['first', 'last']))
        def absorb(self, to):
            self.desc['steps'].append({'op': 'absorb', 'to': to})
            self.pc = False

        @precondition(lambda self: self.desc is not None and self.pc)
        @rule(opts=st.integers(0, len(NONBIND) - 1), normalize=st.booleans())
        def diagonalize(self, opts, normalize):
            self.desc['steps'].append({'op': 'diagonalize', 'opts': opts, 'normalize': normalize})

        @precondition(lambda self: self.desc is not None and not self.pc)
        @rule(to=st.sampled_from(['first', 'last']), opts=st.integers(0, len(NONBIND) - 1), normalize=st.booleans())
        def truncate(self, to, opts, normalize):
            self.desc['steps'].append({'op': 'truncate', 'to': to, 'opts': opts, 'normalize': normalize})

        @rule()
        def observe(self):
            self.desc['steps'].append({'op': 'observe'})

        @rule()
        def reverse(self):
            self.desc['steps'].append({'op': 'reverse'})

        @rule(how=st.sampled_from(['copy', 'clone', 'shallow_copy']))
        def copy(self, how):
            self.desc['steps'].append({'op': 'copy', 'how': how})

        def teardown(self):
            import time
            if self.desc is None or not self.desc['steps']:
                return
            if state['t_fail'] is not None and time.time() - state['t_fail'] > 40:
                return
            desc = self.desc
            try:
                stats = run_program(desc)
                spec = desc['kind'] == 'degenerate'
                r = Res(labels=['kind:' + desc['kind'], 'family:%s:%s' % (G.FAMILIES[desc['fam']][0], G.FAMILIES[desc['fam']][1]['sym'])]
                        + sorted({'op:' + s_['op'] for s_ in desc['steps']}),
                        nontrivial=(stats['dir_changes'] >= 1 and stats['nonorm'] >= 1) or spec)
            except Violation as v:
                r = Res('violation', key=v.key, msg=v.msg, nontrivial=True)
            except Exception as e:
                from vlib.runner import Reject as RJ
                if isinstance(e, RJ):
                    r = Res('rejected', labels=['rejected:' + e.reason])
                else:
                    raise
            if record(res, desc, r, known):
                if state['t_fail'] is None:
                    state['t_fail'] = time.time()
                raise AssertionError('violation')

    return GaugeMachine


def gauge_replay(desc):
    stats = run_program(desc)
    return Res(nontrivial=True)


# ---- binding truncation -----------------------------------------------------------------------------------------------------

def draw_trunc_case(data, tier):
    from hypothesis import strategies as st
    fam = G.draw_family(data, tier)
    ops, sp, named = G.family(fam)
    maxN = {2: 6, 3: 5, 4: 4}.get(sp.d, 4)
    N = data.draw(st.sampled_from([n for n in [3, 4, 2, 5, 6] if n <= maxN]))
    state_ = G.draw_state_desc(data, fam, N, tier, kinds=('random', 'from_tensor', 'random'))
    if state_['kind'] == 'random':
        state_['D'] = data.draw(st.sampled_from([4, 6, 8, 12]))
    opts = {}
    which = data.draw(st.sampled_from(['D_total', 'tol', 'D_block', 'D_total+tol', 'D_total']))
    if 'D_total' in which:
        opts['D_total'] = data.draw(st.sampled_from([1, 2, 3, 4]))
    if 'tol' in which:
        opts['tol'] = data.draw(st.sampled_from([0.1, 0.3, 0.03, 0.5]))
    if 'D_block' in which:
        opts['D_block'] = data.draw(st.sampled_from([1, 2]))
    case = {'fam': fam, 'N': N, 'state': state_, 'to': data.draw(st.sampled_from(['last', 'first'])), 'opts': opts,
            'normalize': data.draw(st.booleans()), 'degenerate': data.draw(st.sampled_from([False, False, True]))}
    if state_['kind'] == 'random' and P.chance(data, 1, 4):
        # a state with a tiny tail, psi + eps * chi, cut by a relative tolerance: the discarded weight is ~eps and has to be reported as such
        state_['D'] = data.draw(st.sampled_from([2, 3, 4]))
        case['tail'] = {'eps': data.draw(st.sampled_from([1e-5, 1e-6, 1e-7, 1e-8, 3e-9])), 'D': data.draw(st.sampled_from([1, 2, 3]))}
        case['opts'] = {'tol': data.draw(st.sampled_from([1e-3, 1e-4]))}
        case['degenerate'] = False
    return case


def left_charges(sp, N, b):
    """Charge of the left part (sites < b) for every Kronecker index of that part."""
    ch = [tuple(0 for _ in C.MODULI[sp.sym])]
    for _ in range(b):
        ch = [gsum(sp.sym, [a, t], [1, 1]) for a in ch for t in sp.charges]
    return ch


def dense_truncation(v, sp, N, to, opts):
    """Independent sequential truncation of the dense state, sector by sector. Returns (state, ties, n_cuts_discarding)."""
    from checks.c13_truncation import reference_selection
    kw = {'D_total': opts.get('D_total', float('inf')), 'tol': opts.get('tol', 0), 'D_block': opts.get('D_block', float('inf')),
          'tol_block': 0}
    cur = v.copy()
    ties = False
    ncut = 0
    cuts = range(1, N) if to == 'last' else range(N - 1, 0, -1)
    for b in cuts:
        M = cur.reshape(sp.d ** b, sp.d ** (N - b))
        lc = left_charges(sp, N, b)
        sectors = {}
        for i, q in enumerate(lc):
            sectors.setdefault(q, []).append(i)
        dec = {}
        spec = {}
        for q, rows in sectors.items():
            sub = M[rows, :]
            if not np.any(sub):
                continue
            U, S, Vh = np.linalg.svd(sub, full_matrices=False)
            keep = S > 1e-14 * max(S.max(), 1e-300)
            dec[q] = (rows, U[:, keep], S[keep], Vh[keep, :])
            spec[q] = S[keep]
        if not spec:
            break
        stage1, K, kept, info = reference_selection(spec, kw)
        allv = np.sort(np.concatenate(list(spec.values())))[::-1]
        if info['tie_at_cut']:
            ties = True
        # rebuild: per sector keep the top len(stage1[q]) values, then globally the top K among those
        thr_vals = np.sort(np.concatenate([stage1[q] for q in stage1]))[::-1][:K]
        thr = thr_vals[-1] if K > 0 else np.inf
        newM = np.zeros_like(M)
        kept_count = 0
        for q, (rows, U, S, Vh) in dec.items():
            k1 = len(stage1[q])
            m = np.zeros(len(S), dtype=bool)
            m[:k1] = True
            m &= S >= thr
            kept_count += int(m.sum())
            newM[rows, :] = (U[:, m] * S[m]) @ Vh[m, :]
        if kept_count != K:
            ties = True
        if np.linalg.norm(newM - M) > 1e-13 * np.linalg.norm(M):
            ncut += 1
        cur = newM.reshape(-1)
    return cur, ties, ncut


def execute_trunc_case(case):
    fam, N = case['fam'], case['N']
    ops, sp, named = G.family(fam)
    psi = G.build_state(case['state'], fam, N)
    if psi is None:
        raise Reject('zero_random_state')
    if case['degenerate']:
        psi = mps.add(psi, psi, amplitudes=[1, 0.5])
    if case.get('tail'):
        chi = G.build_state(dict(case['state'], seed=case['state']['seed'] + 1, D=case['tail']['D'], factor=1), fam, N)
        if chi is None:
            raise Reject('zero_random_state')
        psi = mps.add(psi, chi, amplitudes=[1 / psi.norm(), case['tail']['eps'] / chi.norm()])
    to = case['to']
    other = 'first' if to == 'last' else 'last'
    psi.canonize_(to=other, normalize=False)
    v = G.mps_dense(psi, sp)
    nv = np.linalg.norm(v)
    if nv < 1e-12:
        raise Reject('zero_state')
    try:
        ret = psi.truncate_(to=to, opts_svd=dict(case['opts']), normalize=case['normalize'])
    except YastnError as e:
        raise Violation('truncate:unexpected_YastnError', str(e))
    phi = G.mps_dense(psi, sp)
    nphi = np.linalg.norm(phi)
    labels = ['to:' + to, 'normalize:' + str(case['normalize'])] + sorted('opt:' + k for k in case['opts'])
    if nphi < 1e-14:
        # everything was discarded
        if abs(ret - 1) > 1e-9:
            raise Violation('truncate:all_discarded', f'state vanished but the returned weight is {ret}')
        return Res(labels=labels + ['all_discarded'], nontrivial=False)
    if not case['normalize']:
        err2 = np.linalg.norm(v - phi) ** 2 / nv ** 2
        if abs(ret ** 2 - err2) > 1e-9:
            raise Violation('truncate:reported_error', f'returned {ret}, true relative distance {math.sqrt(err2)} (normalize=False)')
        if abs(psi.factor - nphi) > 1e-9 * max(1.0, nphi):
            raise Violation('truncate:factor', f'factor {psi.factor} but the kept norm is {nphi}')
    else:
        ov = abs(np.vdot(v / nv, phi / nphi)) ** 2
        if abs(ret ** 2 - (1 - ov)) > 1e-9:
            raise Violation('truncate:reported_error', f'returned^2 = {ret ** 2}, 1 - |<psi|phi>|^2 = {1 - ov} (normalize=True)')
        if abs(nphi - 1) > 1e-9:
            raise Violation('truncate:not_unit_norm', f'norm after truncate_(normalize=True) = {nphi}')
    # the same comparison without squares: sine of the angle between the original and the truncated state, accurate for tiny weights too
    a, b = v / nv, phi / nphi
    sine = np.linalg.norm(a - b * np.vdot(b, a))
    if abs(ret - sine) > 1e-10:
        raise Violation('truncate:reported_error_small', f'returned {ret:.6e}, true relative distance {sine:.6e}')
    if case.get('tail'):
        labels.append('tail:discarded<1e-6' if sine < 1e-6 else 'tail:discarded>=1e-6')
    if not psi.is_canonical(to=to, tol=1e-9):
        raise Violation('truncate:not_canonical', f'not canonical to {to} after truncate_')
    # independent sequential truncation
    ref, ties, ncut = dense_truncation(v, sp, N, to, case['opts'])
    nref = np.linalg.norm(ref)
    if not ties and nref > 1e-14:
        a = phi / nphi
        b = ref / nref
        if np.linalg.norm(a - b) > 1e-7:
            raise Violation('truncate:not_largest_weights', f'truncated state differs from the sequential largest-weight truncation by {np.linalg.norm(a - b):.3e}')
        if not case['normalize'] and abs(nphi - nref) > 1e-8 * nv:
            raise Violation('truncate:kept_norm', f'kept norm {nphi}, reference {nref}')
    elif ties:
        labels.append('ties')
    labels.append(f'cuts_discarding:{min(ncut, 3)}')
    return Res(labels=labels, nontrivial=ncut >= 2)


def parts(tier):
    return [MachinePart('gauge', machine_factory, {'quick': 400, 'thorough': 10000}, {'quick': 10, 'thorough': 16}, replay=gauge_replay),
            HypPart('truncate', draw_trunc_case, execute_trunc_case, {'quick': 600, 'thorough': 10000})]
