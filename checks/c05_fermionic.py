"""C05 - Fermionic signs are consistent and order-independent.

Part 'swap'    : swap_gate (pairs of leg groups, and the charge= variant) on generated tensors (every fermionic setting,
                 odd/even parity, lazily transposed, hard/meta fused): dense(swap(a)) == dense(a) * signs computed from the
                 parities of the leg sectors alone; swap o swap == id; identity for bosonic statistics / flagged-off components.
Part 'network' : ncon/einsum networks with swaps on open and contracted legs and parity-odd tensors: every admissible
                 contraction order gives the same tensor exactly, equal to numpy.einsum with explicit sign tensors.
Part 'fkron'   : fkron products of fermionic operators on N<=4 sites for every sites permutation and application order
                 equal the Jordan-Wigner matrices; CAR; fkron(A,B,sites=(1,0)) == +-fkron(B,A,sites=(0,1)).
"""
import itertools

import numpy as np

from vlib import common as C
from vlib import program as P
from vlib import networks as NW
from vlib import jw as JW
from vlib.common import yastn, YastnError, parity
from vlib.model import leaves, observe, ObserveError
from vlib.runner import HypPart, EnumPart, Res, Violation, Reject, record

ID = 'C05'
RULE = ("swap: one tensor + one swap specification; non-trivial when some sign is -1 (a block with odd x odd parity exists). "
        "network: one network with swaps; non-trivial when >= 1 swap touches a contracted leg and >= 2 distinct orders were "
        "executed. fkron: one operator tuple with sites and application order; non-trivial when >= 2 parity-odd operators sit on "
        "different sites. Distinct by SHA-1 of the descriptor (fkron: enumerated, distinct by construction).")
ASSUMPTIONS = ["integer data: exact comparisons", "parity of a charge = its value mod 2 in the components flagged fermionic",
               "orders that ncon documents as rejected are counted as rejected_by_contract",
               "Z3 carries no parity and is not used with fermionic statistics"]

FSYMS = ['Z2', 'U1', 'Z2xU1', 'U1xU1', 'U1xU1xZ2']


# ---- swap ------------------------------------------------------------------------------------------------------

def draw_swap_case(data, tier):
    from hypothesis import strategies as st
    cfg = P.draw_cfg(data, syms=FSYMS)
    if not cfg['fermionic'] and not P.chance(data, 1, 5):
        cfg['fermionic'] = True
    P._CUR_POOL.clear()
    P.draw_charge_pool(data, cfg['sym'], tier)
    rank = data.draw(st.sampled_from([3, 2, 4, 3, 4, 2]))
    td = P.draw_tensor_desc(data, cfg, tier, rank=rank)
    prog = P.draw_program(data, tier, cfg=cfg, min_steps=0, max_steps=2, weights=P.DECOR, partner_prob=0.0,
                          first={'op': 'new', 'td': td})
    st_ = P.State(cfg, with_data=False)
    for s_ in prog['steps']:
        P.draw_apply(st_, s_)
    m = st_.pool[-1]
    if m.ndim < 1 or m.isdiag:
        prog = {'cfg': cfg, 'steps': prog['steps'][:1]}
        st_ = P.State(cfg, with_data=False)
        P.draw_apply(st_, prog['steps'][0])
        m = st_.pool[-1]
    kind = data.draw(st.sampled_from(['pairs', 'pairs', 'charge']))
    spec = {'kind': kind}
    if kind == 'pairs':
        npairs = data.draw(st.sampled_from([1, 2, 1, 3]))
        groups = []
        for _ in range(2 * npairs):
            k = data.draw(st.integers(1, min(2, m.ndim)))
            groups.append(sorted(data.draw(st.permutations(list(range(m.ndim))))[:k]))
        spec['axes'] = groups
    else:
        k = data.draw(st.integers(1, m.ndim))
        spec['axes'] = sorted(data.draw(st.permutations(list(range(m.ndim))))[:k])
        one = data.draw(st.booleans())
        box = C.charge_box(cfg['sym'], 2)
        spec['charge'] = [list(data.draw(st.sampled_from(box)))] if one else [list(data.draw(st.sampled_from(box))) for _ in spec['axes']]
        spec['one'] = one
    return {'prog': prog, 'spec': spec}


def execute_swap_case(desc):
    cfg = desc['prog']['cfg']
    try:
        state, yp, info = P.execute_program(desc['prog'], observers=False)
    except P.StepFail:
        raise Reject('input_program_failed')
    a, m = yp[-1], state.pool[-1]
    if m.isdiag or m.ndim < 1:
        raise Reject('diag')
    config = a.config
    spec = desc['spec']
    ferm = state.ferm
    sym = state.sym
    if spec['kind'] == 'pairs':
        axes = tuple(tuple(g) if len(g) > 1 else g[0] for g in spec['axes'])
        try:
            b = a.swap_gate(axes=axes)
        except YastnError as e:
            raise Violation('swap:unexpected_YastnError', str(e))
        sg = m.swap_gate_signs(spec['axes'][0::2], spec['axes'][1::2]) if ferm else np.ones(m.shape())
    else:
        ax = tuple(spec['axes'])
        ch = tuple(spec['charge'][0]) if spec['one'] else tuple(tuple(c) for c in spec['charge'])
        try:
            b = a.swap_gate(axes=ax, charge=ch)
        except YastnError as e:
            raise Violation('swap:unexpected_YastnError', str(e))
        sg = np.ones(m.shape(), dtype=np.int64)
        if ferm:
            nl = len(m.legs)
            charges = [tuple(spec['charge'][0])] * len(ax) if spec['one'] else [tuple(c) for c in spec['charge']]
            expo = np.zeros(m.shape(), dtype=np.int64)
            for i, c in zip(ax, charges):
                pc = np.array(parity(sym, c, ferm))
                for x in leaves(m.tree[i]):
                    l = m.legs[x]
                    vec = np.zeros(l.dim, dtype=np.int64)
                    for t, (lo, hi) in l.offsets().items():
                        vec[lo:hi] = int(np.dot(np.array(parity(sym, t, ferm)), pc))
                    sh = [1] * nl
                    sh[x] = l.dim
                    expo = expo + vec.reshape(sh)
            sg = 1 - 2 * (expo % 2)
    exp = m.with_E(m.E * sg)
    r = P.check_result(b, exp, config, exact=True, observers=False)
    if r:
        raise Violation(f"swap:{r[0]}:{spec['kind']}", r[1])
    # involution
    b2 = b.swap_gate(axes=axes) if spec['kind'] == 'pairs' else b.swap_gate(axes=ax, charge=ch)
    r = P.check_result(b2, m, config, exact=True, observers=False)
    if r:
        raise Violation(f"swap:involution:{spec['kind']}", r[1])
    if not ferm and not np.array_equal(np.asarray(b.data), np.asarray(a.data)):
        raise Violation('swap:bosonic_not_identity', 'swap_gate changed a tensor with bosonic statistics')
    # operand untouched
    r = P.check_result(a, m, config, exact=True, observers=False)
    if r:
        raise Violation('swap:operand_modified', r[1])
    labels = ['kind:' + spec['kind'], 'sym:' + sym, 'ferm:' + str(cfg['fermionic'])]
    nt = bool(np.any(sg * (m.E != 0) < 0)) if m.E.size else False
    if nt:
        labels.append('has_minus_sign')
    if m.any_fused():
        labels.append('fused')
    return Res(labels=labels, nontrivial=nt)


# ---- network ---------------------------------------------------------------------------------------------------

def draw_network_case(data, tier):
    from hypothesis import strategies as st
    cfg = P.draw_cfg(data, syms=list(FSYMS) + [x for x in FSYMS if len(C.MODULI[x]) > 1])     # product symmetries twice as often:
    if not cfg['fermionic'] and not P.chance(data, 1, 6):                                       # charges with several odd components
        cfg['fermionic'] = True
    net = NW.draw_network(data, tier, cfg=cfg, max_tensors=4 if tier == 'quick' else 5, swaps=True)
    net['order'] = None
    return net


KNOWN_TRACE_CROSS = 'network:swap_between_traced_leg_and_leg_of_another_tensor'


KNOWN_PARTIAL_PARALLEL = 'network:swap_crossing_part_of_parallel_contracted_legs'


def execute_network_case(net):
    if NW.trace_cross_swaps(net):
        try:
            return _execute_network_case(net)
        except Violation as v:
            raise Violation(KNOWN_TRACE_CROSS, f'[{v.key}] {v.msg}')
    if NW.partial_parallel_cross_swaps(net):
        try:
            return _execute_network_case(net)
        except Violation as v:
            if 'AssertionError' in v.key and 'should cross all contracted legs' in v.msg:
                raise Violation(KNOWN_PARTIAL_PARALLEL, f'[{v.key}] {v.msg}')
            raise
    return _execute_network_case(net)


def _execute_network_case(net):
    labels, stats, ref = NW.execute_network(net, all_orders=True, max_orders=24)
    # the equivalent einsum call with default order
    config = C.make_config(net['cfg'])
    try:
        y = NW.run_yastn(net, config, order=None, api='einsum')
        r = P.check_result(y, ref, config, exact=True, observers=False)
        if r:
            raise Violation('network:einsum_' + r[0], r[1])
    except YastnError as e:
        msg = str(e)
        if 'Likely inefficient order' not in msg and 'Indices of legs to contract do not match' not in msg:
            raise Violation('network:einsum_unexpected_YastnError', msg)
    labels.add(f"orders:{min(stats['orders'], 6)}")
    nt = 'swap_on_contracted' in labels and stats['orders'] >= 2 and 'fermionic' in labels
    return Res(labels=sorted(labels), nontrivial=nt)


# ---- fkron -----------------------------------------------------------------------------------------------------

def fkron_chunks(tier):
    chunks = []
    for name, kw in JW.operator_families():
        if name not in ('SpinlessFermions', 'SpinfulFermions'):
            continue
        for N in (2, 3) if tier == 'quick' else (2, 3, 4):
            chunks.append({'family': name, 'kw': kw, 'N': N})
    return chunks


def run_fkron_chunk(ch, res, known, ctx):
    ops = JW.make_ops(ch['family'], ch['kw'])
    sp = JW.LocalSpace(ops)
    named = JW.named_operators(ch['family'], ops)
    N = ch['N']
    names = sorted(named)
    rng = np.random.default_rng(C.dhash(ch).__hash__() % (2 ** 32))
    tuples = list(itertools.product(names, repeat=N))
    limit = 400 if ctx['tier'] == 'quick' else 3000
    if len(tuples) > limit:
        idx = rng.choice(len(tuples), size=limit, replace=False)
        tuples = [tuples[i] for i in sorted(idx)]
    perms = list(itertools.permutations(range(N)))
    for tup in tuples:
        tens = [named[nm] for nm in tup]
        nodd = sum(sp.is_odd(t.n) for t in tens)
        for sites in perms:
            aos = [None] + ([perms[int(rng.integers(len(perms)))]] if N > 2 else perms)
            for ao in aos:
                desc = {'family': ch['family'], 'kw': ch['kw'], 'ops': list(tup), 'sites': list(sites), 'ao': None if ao is None else list(ao)}
                try:
                    r = execute_fkron(desc, ops, sp, named)
                except Violation as v:
                    r = Res('violation', key=v.key, msg=v.msg, nontrivial=True)
                r.labels = [f"{ch['family']}:{ch['kw']['sym']}", f'N={N}']
                record(res, desc, r, known, want_samples=1)


def execute_fkron(desc, ops=None, sp=None, named=None):
    if ops is None:
        ops = JW.make_ops(desc['family'], desc['kw'])
        sp = JW.LocalSpace(ops)
        named = JW.named_operators(desc['family'], ops)
    tens = [named[nm] for nm in desc['ops']]
    N = len(tens)
    sites = list(desc['sites'])
    ao = desc['ao']
    try:
        T = yastn.fkron(*tens, sites=tuple(sites), application_order=None if ao is None else tuple(ao))
    except YastnError as e:
        raise Violation('fkron:unexpected_YastnError', str(e))
    got = JW.tensor_to_matrix(T, sp, N)
    order = list(range(N))[::-1] if ao is None else list(ao)          # order[0] is applied first
    exp = np.eye(sp.d ** N)
    for k in order:                                                   # left-multiply: later applied operators to the left
        exp = JW.jw_single(sp, tens[k], sites[k], N) @ exp
    if not np.array_equal(got, exp):
        raise Violation('fkron:jordan_wigner', f"fkron({desc['ops']}, sites={sites}, application_order={ao}) differs from the JW product "
                                               f"(max dev {np.max(np.abs(got - exp))})")
    exp_n = C.gsum(sp.sym, [t.n for t in tens], [1] * N)
    if tuple(T.n) != exp_n:
        raise Violation('fkron:charge', f'n = {T.n}, expected {exp_n}')
    nodd_sites = len({s for t, s in zip(tens, sites) if sp.is_odd(t.n)})
    # exchanging two operators on two sites gives the parity-determined sign
    if N == 2 and ao is None:
        T2 = yastn.fkron(tens[1], tens[0], sites=(sites[1], sites[0]))
        sgn = -1 if int(np.dot(sp.par(tens[0].n), sp.par(tens[1].n)) % 2) else 1
        if not np.array_equal(JW.tensor_to_matrix(T2, sp, 2) * sgn, got):
            raise Violation('fkron:exchange_sign', f"fkron(A,B,sites={sites}) != {sgn} * fkron(B,A,sites={sites[::-1]}) for {desc['ops']}")
    return Res(nontrivial=nodd_sites >= 2)


def car_chunks(tier):
    return [{'family': name, 'kw': kw, 'N': N} for name, kw in JW.operator_families()
            if name in ('SpinlessFermions', 'SpinfulFermions') for N in (2, 3)]


def run_car_chunk(ch, res, known, ctx):
    """Canonical anticommutation relations of fkron-built site operators (commutation for distinguishable species)."""
    ops = JW.make_ops(ch['family'], ch['kw'])
    sp = JW.LocalSpace(ops)
    N = ch['N']
    I = ops.I()
    species = [None] if ch['family'] == 'SpinlessFermions' else ['u', 'd']
    distinguishable = ch['family'] == 'SpinfulFermions' and ch['kw']['sym'] == 'U1xU1'

    def site_op(op, j):
        tens = [I] * N
        tens[j] = op
        return JW.tensor_to_matrix(yastn.fkron(*tens, sites=tuple(range(N))), sp, N)

    cs = {}
    for j in range(N):
        for s in species:
            c = ops.c() if s is None else ops.c(s)
            cp = ops.cp() if s is None else ops.cp(s)
            cs[(j, s)] = (site_op(c, j), site_op(cp, j))
    Id = np.eye(sp.d ** N)
    for (j1, s1), (c1, cp1) in cs.items():
        for (j2, s2), (c2, cp2) in cs.items():
            desc = {'family': ch['family'], 'kw': ch['kw'], 'N': N, 'a': [j1, s1], 'b': [j2, s2]}
            commute = distinguishable and s1 != s2
            sgn = -1 if commute else 1
            ok1 = np.array_equal(c1 @ cp2 + sgn * cp2 @ c1, Id if (j1, s1) == (j2, s2) else 0 * Id)
            ok2 = np.array_equal(c1 @ c2 + sgn * c2 @ c1, 0 * Id)
            ok3 = np.array_equal(cp1, c1.conj().T)
            r = Res(nontrivial=j1 != j2, labels=[f"car:{ch['family']}:{ch['kw']['sym']}"])
            if not (ok1 and ok2 and ok3):
                r = Res('violation', key=f"fkron:CAR:{ch['family']}:{ch['kw']['sym']}",
                        msg=f'(anti)commutation relation violated for sites/species {(j1, s1)}, {(j2, s2)}: {ok1} {ok2} {ok3}', nontrivial=True)
            record(res, desc, r, known, want_samples=1)


def car_execute(desc):
    return Res(nontrivial=True)


def parts(tier):
    return [HypPart('swap', draw_swap_case, execute_swap_case, {'quick': 3000, 'thorough': 50000}),
            HypPart('network', draw_network_case, execute_network_case, {'quick': 2400, 'thorough': 40000}),
            EnumPart('fkron', fkron_chunks, run_fkron_chunk, execute_fkron),
            EnumPart('car', car_chunks, run_car_chunk, car_execute)]
