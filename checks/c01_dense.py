"""C01 - Tensor algebra agrees with dense linear algebra.

Generated short programs (1-5 operations plus constructed partners) over every symmetry; after every step the yastn
result is compared with the NumPy model: values exactly (integer data), total charge, signatures, fusion history,
dtype, and the three observers (to_numpy, a[key] + get_legs re-assembly, to_nonsymmetric) must agree.
Part 'einsum' does the same for ncon / einsum networks (see vlib/networks.py).
"""
from vlib import program as P
from vlib.runner import HypPart, Res, Violation

ID = 'C01'
RULE = ("One case = one generated program: 1-5 public operations applied to generated tensors (plus constructed "
        "contraction/addition partners). Non-trivial: some tensor in the program has >= 2 stored blocks AND the program "
        "has at least one of {non-zero charge, dropped allowed block, pending transpose, complex dtype, product symmetry, "
        "fused leg}. Distinct by SHA-1 of the program descriptor.")
ASSUMPTIONS = ["integer-valued block data make ring operations exact in IEEE double (compared with ==)",
               "irrational element-wise functions are compared with rtol 1e-12",
               "yastn results are observed after complete unfusion, embedded into the model's sector tables via to_numpy(legs=...)",
               "NumPy backend only"]


def draw(data, tier):
    return P.draw_program(data, tier, min_steps=1, max_steps=4 if tier == 'quick' else 5)


def execute(desc):
    stats = {'maxblocks': 0}

    def on_step(k, step, y, m, yp, state):
        if hasattr(y, 'get_blocks_charge'):
            stats['maxblocks'] = max(stats['maxblocks'], len(y.get_blocks_charge()))

    try:
        state, yp, info = P.execute_program(desc, on_step=on_step)
    except P.StepFail as e:
        f = e.step.get('f')
        raise Violation(f"{e.clause}:{e.step['op']}" + (f':{f}' if f else ''), f'{e}')
    if info['soft']:
        raise Violation(info['soft'][0][0], info['soft'][0][1])
    labs = P.program_labels(desc, state)
    feats = labs & {'nonzero_charge', 'dropped_blocks', 'complex', 'op:transpose', 'op:T', 'op:H', 'op:moveaxis', 'op:fuse',
                    'sym:Z2xU1', 'sym:U1xU1', 'sym:U1xU1xZ2'}
    nt = stats['maxblocks'] >= 2 and bool(feats)
    return Res(labels=sorted(labs), nontrivial=nt)


def parts(tier):
    ps = [HypPart('programs', draw, execute, {'quick': 10000, 'thorough': 200000})]
    try:
        from vlib import networks
        ps.append(HypPart('einsum', networks.draw_network_case, networks.execute_network_case,
                          {'quick': 1200, 'thorough': 40000}))
    except ImportError:
        pass
    return ps
