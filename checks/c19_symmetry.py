"""C19 - Symmetry rules are abelian groups and legs hold canonical charges.

Part 'group' : exhaustive enumeration of fuse() over a charge box against an independent table-driven group law,
               plus the group axioms (closure, commutativity, associativity/grouping, identity, inverse,
               new_signature) and agreement of add_charges().
Part 'leg'   : Hypothesis search over Leg constructor arguments in and just outside the valid domain against a
               model of validity; accepted legs are checked for sorted storage, tD/__getitem__, conj involution,
               order independence and hashing.
"""
import itertools

import numpy as np

from vlib.common import yastn, YastnError, SYMS, MODULI, sym_class, gsum, canonical, charge_box, nsym
from vlib.runner import EnumPart, HypPart, Res, Violation, Reject, record

ID = 'C19'
RULE = ("group: every (symmetry, m summands, signature vector, new_signature, charge tuple in the box) row is one "
        "case; all rows are distinct by construction; a row is non-trivial when >= 2 summands are non-zero and at "
        "least one signature is -1. leg: Hypothesis-drawn constructor arguments; non-trivial when >= 2 sectors are "
        "given and (the input order is not sorted, or the arguments are invalid in exactly one respect); distinct by "
        "descriptor hash.")
ASSUMPTIONS = ["U(1) factors are enumerated only inside |t| <= B (B=2 quick, 3 thorough); finite factors completely",
               "the reference group law is the table of moduli in vlib/common.py (written from the documentation)",
               "NumPy backend only"]


# ------------------------------------------------------------------------------------------------
# group law
# ------------------------------------------------------------------------------------------------

def model_fuse(sym, arr, sigs, ns):
    """Vectorised independent reference: arr has shape (k, m, nsym)."""
    mod = MODULI[sym]
    sg = np.array(sigs, dtype=np.int64).reshape(1, -1, 1)
    out = ns * (arr * sg).sum(axis=1)
    for c, m in enumerate(mod):
        if m:
            out[:, c] = np.mod(out[:, c], m)
    return out


def group_chunks(tier):
    B = 2 if tier == 'quick' else 3
    chunks = []
    for sym in SYMS:
        box = len(charge_box(sym, B))
        for m in (1, 2, 3, 4):
            if m == 4 and tier == 'quick' and box > 6:
                continue
            Bm = B
            if box ** m > 1.2e6:  # keep the largest product symmetries tractable: smaller box for many summands
                Bm = 2 if len(charge_box(sym, 2)) ** m <= 1.2e6 else 1
                if len(charge_box(sym, Bm)) ** m > 1.2e6:
                    continue
            for sigs in itertools.product((1, -1), repeat=m):
                chunks.append({'sym': sym, 'm': m, 'sigs': list(sigs), 'B': Bm, 'kind': 'box'})
        if MODULI[sym] and any(MODULI[sym]):
            chunks.append({'sym': sym, 'kind': 'noncanonical', 'B': B})
    return chunks


def _rows(sym, m, B):
    cb = charge_box(sym, B)
    box = np.array(cb, dtype=np.int64).reshape(len(cb), nsym(sym))
    idx = np.array(list(itertools.product(range(len(box)), repeat=m)), dtype=np.int64).reshape(-1, m)
    return box[idx]  # (k, m, nsym)


def _fail(res, known, desc, key, msg):
    r = Res('violation', key=key, msg=msg, nontrivial=True)
    record(res, desc, r, known)


def run_group_chunk(ch, res, known, ctx):
    sym = ch['sym']
    S = sym_class(sym)
    ns_ = nsym(sym)
    mod = MODULI[sym]
    zero = tuple(0 for _ in mod)
    if tuple(S.zero()) != zero:
        _fail(res, known, ch, f'group:{sym}:zero', f'zero() = {S.zero()}')
    if ch['kind'] == 'noncanonical':
        # inputs outside the canonical range of the finite factors: results must still be canonical and correct
        rng = [range(-2 * m - 1, 2 * m + 2) if m else range(-ch['B'], ch['B'] + 1) for m in mod]
        lst = list(itertools.product(*rng))
        box = np.array(lst, dtype=np.int64).reshape(len(lst), ns_)
        n = 0
        for sigs in itertools.product((1, -1), repeat=2):
            idx = np.array(list(itertools.product(range(len(box)), repeat=2)), dtype=np.int64)
            arr = box[idx]
            for nsig in (1, -1):
                got = np.asarray(S.fuse(arr.copy(), sigs, nsig))
                exp = model_fuse(sym, arr, sigs, nsig)
                n += len(arr)
                if got.shape != exp.shape or not np.array_equal(got, exp):
                    bad = int(np.argmax(np.any(got != exp, axis=1))) if got.shape == exp.shape else 0
                    _fail(res, known, dict(ch, sigs=list(sigs), ns=nsig, row=arr[bad].tolist()),
                          f'group:{sym}:noncanonical', f'fuse gives {got[bad].tolist()} expected {exp[bad].tolist()}')
        res['evaluations'] += n
        res['nt_enum'] = res.get('nt_enum', 0) + n
        res['labels'][f'{sym}/noncanonical_rows'] += n
        return
    m, sigs, B = ch['m'], tuple(ch['sigs']), ch['B']
    arr = _rows(sym, m, B)
    k = len(arr)
    nz = (np.any(arr != 0, axis=2).sum(axis=1) >= 2) & (min(sigs) < 0)
    for nsig in (1, -1):
        d = dict(ch, ns=nsig)
        got = np.asarray(S.fuse(arr.copy(), sigs, nsig))
        exp = model_fuse(sym, arr, sigs, nsig)
        if got.shape != (k, ns_):
            _fail(res, known, d, f'group:{sym}:shape', f'fuse returned shape {got.shape} for {(k, m, ns_)}')
            continue
        if not np.array_equal(got, exp):
            bad = int(np.argmax(np.any(got != exp, axis=1)))
            _fail(res, known, dict(d, row=arr[bad].tolist()), f'group:{sym}:law',
                  f'fuse({arr[bad].tolist()}, {sigs}, {nsig}) = {got[bad].tolist()} expected {exp[bad].tolist()}')
        # closure in the canonical range
        for c, mm in enumerate(mod):
            if mm and (got[:, c].min(initial=0) < 0 or got[:, c].max(initial=0) >= mm):
                _fail(res, known, d, f'group:{sym}:closure', 'result outside canonical range')
        # commutativity: every permutation of (summand, signature) pairs
        if m <= 3:
            for perm in itertools.permutations(range(m)):
                g2 = np.asarray(S.fuse(arr[:, perm, :].copy(), tuple(sigs[p] for p in perm), nsig))
                if not np.array_equal(g2, got):
                    _fail(res, known, dict(d, perm=list(perm)), f'group:{sym}:commutativity', 'permuted summands differ')
        # grouping == all at once (associativity): first g summands fused into an intermediate of signature si
        for g in range(1, m):
            for si in (1, -1):
                inter = np.asarray(S.fuse(arr[:, :g, :].copy(), sigs[:g], si)).reshape(k, 1, ns_)
                rest = np.concatenate([inter, arr[:, g:, :]], axis=1)
                g2 = np.asarray(S.fuse(rest, (si,) + sigs[g:], nsig))
                if not np.array_equal(g2, got):
                    bad = int(np.argmax(np.any(g2 != got, axis=1)))
                    _fail(res, known, dict(d, group=g, s_int=si, row=arr[bad].tolist()), f'group:{sym}:grouping',
                          f'grouped {g2[bad].tolist()} vs all-at-once {got[bad].tolist()}')
        # identity: appending the zero charge with either signature changes nothing
        z = np.zeros((k, 1, ns_), dtype=np.int64)
        for sz in (1, -1):
            g2 = np.asarray(S.fuse(np.concatenate([arr, z], axis=1), sigs + (sz,), nsig))
            if not np.array_equal(g2, got):
                _fail(res, known, d, f'group:{sym}:identity', 'adding zero() changed the result')
        # inverse: x + (-x) = 0 where -x is x with flipped signature; and new_signature=-1 is the inverse
        both = np.concatenate([arr, arr], axis=1)
        g2 = np.asarray(S.fuse(both, sigs + tuple(-s for s in sigs), nsig))
        if np.any(g2 != 0):
            _fail(res, known, d, f'group:{sym}:inverse', 'x + (-x) != 0')
    gp = np.asarray(S.fuse(arr.copy(), sigs, 1))
    gm = np.asarray(S.fuse(arr.copy(), sigs, -1))
    tot = np.asarray(S.fuse(np.stack([gp, gm], axis=1), (1, 1), 1))
    if np.any(tot != 0):
        _fail(res, known, ch, f'group:{sym}:new_signature', 'fuse(.., -1) is not the inverse of fuse(.., +1)')
    # add_charges (scalar interface) on a deterministic sample of rows
    step = max(1, k // 150)
    for i in range(0, k, step):
        row = [tuple(x) for x in arr[i].tolist()]
        for nsig in (1, -1):
            got1 = S.add_charges(*row, signatures=sigs, new_signature=nsig)
            exp1 = gsum(sym, row, sigs, nsig)
            if tuple(got1) != exp1 or not all(isinstance(x, int) for x in got1):
                _fail(res, known, dict(ch, row=arr[i].tolist(), ns=nsig), f'group:{sym}:add_charges',
                      f'add_charges -> {got1!r}, expected {exp1}')
        if all(s == 1 for s in sigs):
            got1 = S.add_charges(*row)
            if tuple(got1) != gsum(sym, row, sigs):
                _fail(res, known, dict(ch, row=arr[i].tolist()), f'group:{sym}:add_charges_default', f'{got1}')
    res['evaluations'] += 2 * k
    res['nt_enum'] = res.get('nt_enum', 0) + 2 * int(nz.sum())
    res['labels'][f'{sym}/m={m}/rows'] += 2 * k
    if len(res['samples']) < 2 and k > 3 and nz.any():
        i = int(np.argmax(nz))
        res['samples'].append(dict(ch, ns=1, row=arr[i].tolist(), result=gp[i].tolist()))


def group_execute(desc):
    """Replay of a single failing row descriptor."""
    sym = desc['sym']
    S = sym_class(sym)
    if 'row' not in desc:
        return Res()
    arr = np.array(desc['row'], dtype=np.int64).reshape(1, -1, nsym(sym))
    sigs = tuple(desc['sigs'])[:arr.shape[1]]
    for nsig in (1, -1):
        got = np.asarray(S.fuse(arr.copy(), sigs, nsig))
        exp = model_fuse(sym, arr, sigs, nsig)
        if not np.array_equal(got, exp):
            raise Violation(f'group:{sym}:law', f'{got.tolist()} vs {exp.tolist()}')
    return Res(nontrivial=True)


# ------------------------------------------------------------------------------------------------
# Leg
# ------------------------------------------------------------------------------------------------

def draw_leg_case(data, tier):
    from hypothesis import strategies as st
    sym = data.draw(st.sampled_from(SYMS))
    ns_ = nsym(sym)
    B = 3
    box = charge_box(sym, B)
    k = data.draw(st.integers(0, min(5, len(box)))) if ns_ else data.draw(st.integers(0, 2))
    mutate = data.draw(st.sampled_from(['none', 'none', 'none', 'noncanon', 'repeat', 'arity', 'tfloat', 'Dzero', 'Dneg',
                                        'Dfloat', 'Dcount', 'sig', 'tintfloat', 'Dintfloat', 'npint']))
    if ns_:
        ts = data.draw(st.lists(st.sampled_from(box), min_size=k, max_size=k, unique=True))
    else:
        ts = [()] * k
    Ds = data.draw(st.lists(st.integers(1, 5), min_size=k, max_size=k))
    s = data.draw(st.sampled_from([1, -1]))
    ts = [list(t) for t in ts]
    Ds = list(Ds)
    if mutate == 'noncanon' and ns_ and ts:
        i = data.draw(st.integers(0, len(ts) - 1))
        c = data.draw(st.integers(0, ns_ - 1))
        m = MODULI[sym][c]
        if m:
            ts[i][c] = data.draw(st.sampled_from([-1, m, m + 1, -m]))
        # U(1) components have no out-of-range values: mutation is a no-op there
    elif mutate == 'repeat' and ts:
        i = data.draw(st.integers(0, len(ts) - 1))
        ts.append(list(ts[i]))
        Ds.append(data.draw(st.integers(1, 5)))
    elif mutate == 'arity' and ts and ns_:
        i = data.draw(st.integers(0, len(ts) - 1))
        if data.draw(st.booleans()):
            ts[i] = ts[i] + [0]
        else:
            ts[i] = ts[i][:-1]
    elif mutate == 'tfloat' and ts and ns_:
        i = data.draw(st.integers(0, len(ts) - 1))
        ts[i][0] = ts[i][0] + 0.5
    elif mutate == 'tintfloat' and ts and ns_:
        i = data.draw(st.integers(0, len(ts) - 1))
        ts[i][0] = float(ts[i][0])
    elif mutate == 'Dzero' and Ds:
        Ds[data.draw(st.integers(0, len(Ds) - 1))] = 0
    elif mutate == 'Dneg' and Ds:
        Ds[data.draw(st.integers(0, len(Ds) - 1))] = -data.draw(st.integers(1, 3))
    elif mutate == 'Dfloat' and Ds:
        Ds[data.draw(st.integers(0, len(Ds) - 1))] = 1.5
    elif mutate == 'Dintfloat' and Ds:
        i = data.draw(st.integers(0, len(Ds) - 1))
        Ds[i] = float(Ds[i])
    elif mutate == 'Dcount':
        if Ds and data.draw(st.booleans()):
            Ds = Ds[:-1]
        else:
            Ds = Ds + [2]
    elif mutate == 'sig':
        s = data.draw(st.sampled_from([0, 2, -2, 3]))
    form = data.draw(st.sampled_from(['nested', 'flat'])) if ns_ else 'nested'
    how = data.draw(st.sampled_from(['config', 'sym']))
    perm_seed = data.draw(st.integers(0, 1000))
    return {'sym': sym, 's': s, 't': ts, 'D': Ds, 'form': form, 'how': how, 'mutate': mutate, 'perm_seed': perm_seed}


def leg_model_valid(sym, s, ts, Ds):
    ns_ = nsym(sym)
    if s not in (1, -1):
        return False
    if not all(int(x) == x and x > 0 for x in Ds):
        return False
    flat = [x for t in ts for x in t]
    if not all(int(x) == x for x in flat):
        return False
    if len(Ds) * ns_ != len(flat) or (ns_ == 0 and len(Ds) > 1):
        return False
    # flat interpretation: charges are consecutive groups of nsym entries
    grp = [tuple(int(x) for x in flat[i * ns_:(i + 1) * ns_]) for i in range(len(Ds))]
    if not all(canonical(sym, t) for t in grp):
        return False
    if len(set(grp)) != len(grp):
        return False
    return True


def leg_execute(desc):
    sym, s = desc['sym'], desc['s']
    ts = [list(t) for t in desc['t']]
    Ds = list(desc['D'])
    ns_ = nsym(sym)
    if desc['mutate'] == 'npint':
        ts = [[np.int64(x) for x in t] for t in ts]
        Ds = [np.int32(x) for x in Ds]
    cfg = yastn.make_config(sym=sym_class(sym))
    first = cfg if desc['how'] == 'config' else sym_class(sym)
    if desc['form'] == 'flat':
        targ = tuple(x for t in ts for x in t)
    else:
        targ = tuple(tuple(t) for t in ts)
        if ns_ == 0:
            targ = ()
    valid = leg_model_valid(sym, s, ts, Ds)
    labels = ['valid' if valid else 'invalid', 'mut:' + desc['mutate'], sym]
    try:
        leg = yastn.Leg(first, s=s, t=targ, D=tuple(Ds))
        accepted = True
    except YastnError:
        accepted = False
    if accepted != valid:
        raise Violation(f'leg:accepts_iff_valid:{desc["mutate"]}',
                        f'Leg({sym}, s={s}, t={targ}, D={Ds}) accepted={accepted} but model valid={valid}')
    nontrivial = len(Ds) >= 2
    if not accepted:
        return Res(labels=labels, nontrivial=nontrivial)
    flat = [x for t in ts for x in t]
    grp = [tuple(int(x) for x in flat[i * ns_:(i + 1) * ns_]) for i in range(len(Ds))]
    exp = dict(sorted(zip(grp, [int(d) for d in Ds])))
    if leg.t != tuple(exp.keys()) or leg.D != tuple(exp.values()):
        raise Violation('leg:sorted_storage', f'stored t={leg.t} D={leg.D}, expected {exp}')
    if list(leg.t) != sorted(set(leg.t)):
        raise Violation('leg:sorted_storage', f't not strictly sorted: {leg.t}')
    if not all(isinstance(x, int) for t in leg.t for x in t) or not all(isinstance(x, int) for x in leg.D) \
            or not isinstance(leg.s, int):
        raise Violation('leg:python_ints', f'non-int stored: {leg.t} {leg.D} {leg.s!r}')
    if leg.tD != exp or any(leg[t] != D for t, D in exp.items()):
        raise Violation('leg:tD', f'tD={leg.tD} expected {exp}')
    if leg.s != s or leg.sym.SYM_ID != sym:
        raise Violation('leg:fields', f's={leg.s} sym={leg.sym}')
    c = leg.conj()
    if c.s != -s or c.t != leg.t or c.D != leg.D or c.sym is not leg.sym:
        raise Violation('leg:conj', f'conj gives s={c.s} t={c.t} D={c.D}')
    cc = c.conj()
    if cc != leg or hash(cc) != hash(leg) or (len(Ds) > 0 and c == leg):
        raise Violation('leg:conj_involution', 'conj().conj() != leg or conj() == leg')
    # order independence
    prm = np.random.default_rng(desc['perm_seed']).permutation(len(Ds)).tolist()
    ts2 = [ts[i] for i in prm] if ns_ else []
    Ds2 = [Ds[i] for i in prm]
    targ2 = tuple(tuple(t) for t in ts2) if ns_ else ()
    leg2 = yastn.Leg(cfg, s=s, t=targ2, D=tuple(Ds2))
    if leg2 != leg or hash(leg2) != hash(leg):
        raise Violation('leg:order_independence', f'{leg2} != {leg}')
    if prm != sorted(prm) or grp != sorted(grp):
        labels.append('unsorted_input')
    if leg.is_fused() or leg.history() != 'o':
        raise Violation('leg:history', f'fresh leg reports history {leg.history()}')
    return Res(labels=labels, nontrivial=nontrivial)


def parts(tier):
    return [EnumPart('group', group_chunks, run_group_chunk, group_execute),
            HypPart('leg', draw_leg_case, leg_execute, {'quick': 3000, 'thorough': 100000})]
