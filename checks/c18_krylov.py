"""C18 - Krylov solvers agree with dense matrix functions.

The linear map is  f(x) = M . x  for a random zero-charge tensor M with legs (l_1..l_k, l_1*..l_k*) acting on symmetric tensors x with legs
(l_1..l_k) and charge n (optionally plus a scalar shift, or wrapped so that only the callable is visible); its dense matrix F is M.to_numpy()
reshaped, and vectors are compared through to_numpy().

Part 'expmv'  : w = expmv(f, v, t, tol, ncv, hermitian, normalize) against scipy.linalg.expm(t F) v: relative error bound derived from tol, norm
                (unit when normalize, true norm otherwise), sector, t = 0, zero vector (raises only with normalize), near-invariant start vectors
                (eigenvectors and sums of two), |t| ||F|| from 1e-3 to ~40 (forces sub-stepping), info fields (steps, krylov_steps == number of
                calls of f, ncv within bounds).
Part 'eigs'   : Ritz pairs: exact (residual, value set ordered by `which`) once the Krylov space is invariant or ncv reaches the dimension of
                the reachable space; otherwise, for Hermitian maps, Rayleigh-quotient identity, interlacing bounds and lambda_min <= theta_0 <= <v0|F|v0>.
Part 'linsolve': lin_solver returns (x, res) with res == ||F x - b|| (dense), res <= ||F v0 - b|| (minimal residual), exact solution when the
                Krylov space of the initial residual is exhausted and F is well conditioned on it; sector.
"""
import math

import numpy as np
import scipy.linalg as sla

from vlib import common as C
from vlib import program as P
from vlib.common import yastn, YastnError
from vlib.runner import HypPart, Res, Violation, Reject

ID = 'C18'
RULE = ("One case = one linear map (tensor M, Hermitian or not), a start vector and solver options. Non-trivial: sector dimension >= 6 and "
        "(expmv: t != 0 and the Krylov space smaller than the sector, or sub-stepping; eigs / lin_solver: ncv smaller than the reachable dimension, "
        "or an invariant start vector). Distinct by SHA-1 of the descriptor.")
ASSUMPTIONS = ["dense references scipy.linalg.expm / numpy.linalg.eig(h) / lstsq on M.to_numpy()",
               "expmv error bound: |w - ref| <= (10 tol + 1e-11) * amplification * |ref| (observed maximum on the unchanged tree: 0.61 tol), amplification = exp(|t| (||F||_2 - spectral abscissa of the relevant sign)) "
               "capped to cases with amplification <= 1e4 (Hermitian maps: 1)",
               "hermitian=True is only passed for Hermitian maps"]


# observed on the unchanged tree (12 000 cases): |expmv - ref| / (tol * amplification) <= 0.61
BOUND_FACTOR = 10
# open known finding: expmv(hermitian=True) over long times (|t| ||F|| >= 100, dozens of sub-steps): the unre-orthogonalised Lanczos basis loses
# orthogonality once the vector collapses onto the dominant eigenvectors; results miss tol by orders of magnitude and some calls take minutes
KNOWN_LANCZOS = 'expmv:lanczos_long_time_inaccurate'


def cx(v):
    return C.cplx(v) if isinstance(v, dict) else v


def draw_map(data, tier, maxdim=None):
    from hypothesis import strategies as st
    cfg = P.draw_cfg(data, knobs=False)
    P._CUR_POOL.clear()
    P.draw_charge_pool(data, cfg['sym'], tier)
    k = data.draw(st.sampled_from([2, 1, 3, 2]))
    legs = [P.draw_table(data, cfg['sym'], tier, max_sectors=3, maxD={1: 60, 2: 8, 3: 3}[k]) for _ in range(k)]
    s = [data.draw(st.sampled_from([1, -1])) for _ in range(k)]
    pick = [tuple(data.draw(st.sampled_from(lg['t']))) for lg in legs]
    n = C.gsum(cfg['sym'], pick, s)
    return {'cfg': cfg, 'legs': legs, 's': s, 'n': list(n), 'hermitian': P.chance(data, 1, 2), 'mdtype': data.draw(st.sampled_from(['float64', 'complex128'])),
            'vdtype': data.draw(st.sampled_from(['float64', 'complex128'])), 'seed': data.draw(st.integers(0, 99999)),
            'shift': data.draw(st.sampled_from([0, 0, 0.5, -1.0])), 'scale': data.draw(st.sampled_from([1.0, 1.0, 0.1, 3.0])),
            'start': data.draw(st.sampled_from(['random', 'random', 'inv2', 'eigvec', 'two_eigvecs', 'few_blocks', 'inv1', 'random']))}


class Map:
    """The map, its dense matrix on the sector and the vectorisation."""

    def __init__(self, desc):
        self.desc = desc
        self.config = C.make_config(desc['cfg'])
        config = self.config
        legs = [yastn.Leg(config, s=s_, t=[tuple(t) for t in lg['t']], D=lg['D']) for s_, lg in zip(desc['s'], desc['legs'])]
        self.legs = legs
        k = len(legs)
        self.k = k
        C.reseed_backend(desc['seed'])
        M = yastn.rand(config, legs=legs + [l.conj() for l in legs], dtype=desc['mdtype'])
        if desc['hermitian']:
            M = (M + M.conj().transpose(tuple(range(k, 2 * k)) + tuple(range(k)))) / 2
        M = M * desc['scale']
        self.inv = 0
        if desc['start'] in ('inv1', 'inv2'):
            M = self._make_invariant(M, desc)
        self.M = M
        self.shift = desc['shift']
        self.v = yastn.rand(config, legs=legs, n=tuple(desc['n']), dtype=desc['vdtype'])
        if len(self.v.get_blocks_charge()) == 0:
            raise Reject('empty_sector')
        self.shape = tuple(sum(l.D) for l in legs)
        dim = int(np.prod(self.shape))
        Md = self.M.to_numpy(legs=dict(enumerate(legs + [l.conj() for l in legs]))) if True else None
        self.Ffull = Md.reshape(dim, dim) + self.shift * np.eye(dim)
        mask = (self.v ** 0).to_numpy(legs=dict(enumerate(legs))).real.reshape(-1) if False else None
        ones = yastn.ones(config, legs=legs, n=tuple(desc['n']))
        self.mask = ones.to_numpy(legs=dict(enumerate(legs))).reshape(-1) != 0
        self.idx = np.nonzero(self.mask)[0]
        self.F = self.Ffull[np.ix_(self.idx, self.idx)]
        self.d = len(self.idx)
        self.calls = 0
        # leakage out of the sector would mean the dense restriction is not the map
        off = self.Ffull[np.ix_(~self.mask, self.mask)]
        if off.size and np.max(np.abs(off)) > 0:
            raise Violation('harness:map_leaves_sector', 'the zero-charge tensor M maps the sector outside itself')

    def _make_invariant(self, M, desc):
        """Zero rows / columns of M so that the first 1 (2) basis vectors of the first allowed block span an EXACTLY invariant subspace."""
        k, ns = self.k, self.config.sym.NSYM
        tmpl = yastn.ones(self.config, legs=self.legs, n=tuple(desc['n']))
        if len(tmpl.get_blocks_charge()) == 0:
            return M
        t0, D0 = tmpl.get_blocks_charge()[0], tmpl.get_blocks_shape()[0]
        size0 = int(np.prod(D0))
        m = min(2 if desc['start'] == 'inv2' else 1, size0)
        self.inv, self.inv_t, self.inv_D = m, t0, D0
        M = M.copy()
        for t, D in zip(M.get_blocks_charge(), M.get_blocks_shape()):
            tout, tin = t[:k * ns], t[k * ns:]
            blk = np.array(M[t]).reshape(int(np.prod(D[:k])), int(np.prod(D[k:])))
            if tin == t0:
                keep = blk[:m, :m].copy() if tout == t0 else None
                blk[:, :m] = 0
                if keep is not None:
                    blk[:m, :m] = keep
            if tout == t0 and desc['hermitian']:
                keep = blk[:m, :m].copy() if tin == t0 else None
                blk[:m, :] = 0
                if keep is not None:
                    blk[:m, :m] = keep
            M.set_block(ts=t, Ds=D, val=blk.reshape(D))
        return M

    def f(self, x):
        self.calls += 1
        k = self.k
        y = yastn.tensordot(self.M, x, axes=(tuple(range(k, 2 * k)), tuple(range(k))))
        return y + self.shift * x if self.shift else y

    def vec(self, x):
        a = x.to_numpy(legs=dict(enumerate(self.legs))).reshape(-1)
        if np.max(np.abs(a[~self.mask]), initial=0.0) > 0:
            raise Violation('left_sector', 'the result has weight outside the charge sector of the start vector')
        return a[self.idx]

    def ten(self, a):
        """Symmetric tensor from a sector vector (through blocks of a template)."""
        full = np.zeros(int(np.prod(self.shape)), dtype=np.complex128)
        full[self.idx] = a
        full = full.reshape(self.shape)
        out = yastn.zeros(self.config, legs=self.legs, n=tuple(self.desc['n']), dtype='complex128')
        offs = [dict(zip(l.t, np.cumsum((0,) + l.D[:-1]))) for l in self.legs]
        ns = self.config.sym.NSYM
        for t, D in zip(out.get_blocks_charge(), out.get_blocks_shape()):
            ts = [tuple(t[i * ns:(i + 1) * ns]) for i in range(self.k)]
            sl = tuple(slice(int(offs[i][ts[i]]), int(offs[i][ts[i]]) + D[i]) for i in range(self.k))
            out.set_block(ts=t, Ds=D, val=full[sl])
        return out

    def start(self):
        kind = self.desc['start']
        if kind in ('inv1', 'inv2'):
            if not self.inv:
                return self.v, 'random'
            v = yastn.zeros(self.config, legs=self.legs, n=tuple(self.desc['n']), dtype=self.desc['vdtype'])
            blk = np.zeros(int(np.prod(self.inv_D)))
            blk[:self.inv] = [1.0, 0.5][:self.inv]
            v.set_block(ts=self.inv_t, Ds=self.inv_D, val=blk.reshape(self.inv_D))
            return v, kind
        if kind == 'random' or self.d < 2:
            return self.v, kind
        if kind == 'few_blocks':
            v = self.v.copy()
            ts = v.get_blocks_charge()
            if len(ts) < 2:
                return self.v, 'random'
            for t in ts[1:]:
                v.set_block(ts=t, Ds=dict(zip(v.get_blocks_charge(), v.get_blocks_shape()))[t], val='zeros')
            return v, kind
        w, U = (np.linalg.eigh if self.desc['hermitian'] else np.linalg.eig)(self.F)
        a = U[:, 0] if kind == 'eigvec' else U[:, 0] + 0.5 * U[:, -1]
        if not np.iscomplexobj(self.F) and self.desc['hermitian']:
            a = a.real
        return self.ten(a), kind


def check_same_structure(w, v, what):
    if not isinstance(w, yastn.Tensor):
        raise Violation(f'{what}:type', f'result is {type(w).__name__}')
    if tuple(w.n) != tuple(v.n) or tuple(w.s) != tuple(v.s):
        raise Violation(f'{what}:charge', f'result has n = {w.n}, s = {w.s}; start vector n = {v.n}, s = {v.s}')


# ---- expmv ----------------------------------------------------------------------------------------------------------------

def draw_expmv(data, tier):
    from hypothesis import strategies as st
    desc = draw_map(data, tier)
    desc.update({'tau': data.draw(st.sampled_from([1.0, 0.1, 5.0, 0.0, 1e-3, 20.0, 40.0, 2.0])),
                 'phase': data.draw(st.sampled_from([1, -1, {'re': 0, 'im': 1}, {'re': 0, 'im': -1}, {'re': 0.6, 'im': 0.8}, {'re': -0.6, 'im': 0.8}])),
                 'tol': data.draw(st.sampled_from([1e-12, 1e-8, 1e-10, 1e-5])), 'ncv': data.draw(st.sampled_from([10, 5, 2, 1, 3, 20, 40])),
                 'hflag': data.draw(st.booleans()), 'normalize': data.draw(st.booleans()), 'zero': P.chance(data, 1, 25),
                 'return_info': data.draw(st.booleans())})
    if P.chance(data, 1, 4):     # a sector larger than the maximal Krylov space (30) and a long time: forces sub-stepping
        t0 = desc['legs'][0]['t'][0]
        D0 = data.draw(st.sampled_from([40, 64, 33, 100]))
        desc['legs'] = [{'t': [t0], 'D': [D0]}] + [{'t': [lg['t'][0]], 'D': [1]} for lg in desc['legs'][1:]]
        desc['n'] = list(C.gsum(desc['cfg']['sym'], [tuple(lg['t'][0]) for lg in desc['legs']], desc['s']))
        desc['tau'] = data.draw(st.sampled_from([20.0, 40.0, 5.0, 100.0, 250.0]))
        desc['return_info'] = True
        if desc['start'] in ('eigvec', 'two_eigvecs'):
            desc['start'] = 'random'
        if desc['tau'] >= 100:
            # open known finding (see KNOWN_LANCZOS): hermitian=True with |t| ||F|| >= 100 is excluded from the search by construction;
            # the long-time regime is explored through the Arnoldi path
            desc['hflag'] = False
    return desc


def execute_expmv(desc):
    mp = Map(desc)
    v, kind = mp.start()
    if desc['zero']:
        v = v * 0
    a0 = mp.vec(v)
    nF = np.linalg.norm(mp.F, 2) if mp.d else 0.0
    t = cx(desc['phase']) * (desc['tau'] / nF if nF > 0 else desc['tau'])      # |t| ||F|| = tau
    herm = desc['hermitian']
    hflag = desc['hflag'] and herm
    labels = ['sym:' + desc['cfg']['sym'], 'start:' + kind, f"tau:{desc['tau']}", 'hermitian_map' if herm else 'general_map', f'hflag:{hflag}',
              f"tol:{desc['tol']}", 'normalize' if desc['normalize'] else 'true_norm', 'rank:%d' % mp.k]
    mp.calls = 0
    try:
        out = yastn.expmv(mp.f, v, t, tol=desc['tol'], ncv=desc['ncv'], hermitian=hflag, normalize=desc['normalize'], return_info=desc['return_info'])
    except YastnError as e:
        if desc['zero'] and desc['normalize']:
            return Res(labels=labels + ['zero_vector_rejected'], nontrivial=False)
        raise Violation('expmv:unexpected_YastnError', str(e))
    if desc['zero'] and desc['normalize']:
        raise Violation('expmv:zero_vector_normalised', 'expmv(normalize=True) accepted a zero vector')
    w, info = out if desc['return_info'] else (out, None)
    check_same_structure(w, v, 'expmv')
    a = mp.vec(w)
    ref = sla.expm(t * mp.F) @ a0 if mp.d else a0
    if desc['zero']:
        if np.max(np.abs(a), initial=0) != 0:
            raise Violation('expmv:zero_vector', 'exp(tF) 0 is not 0')
        return Res(labels=labels + ['zero_vector'], nontrivial=False)
    nref = np.linalg.norm(ref)
    # conditioning of the problem: a perturbation delta at time s is propagated by exp((t - s) F); compare its maximal growth with the decay of the solution
    ev = np.linalg.eigvals(mp.F)
    growth = math.exp(max(0.0, float(np.max((t * ev).real)))) if mp.d else 1.0
    amp = growth * np.linalg.norm(a0) / nref if nref > 0 else float('inf')
    if not herm:
        amp = amp * math.exp(min(50.0, abs(t) * nF - max(0.0, float(np.max((t * ev).real)))))   # non-normal transient growth bound
    if not (amp <= 1e4):
        return Res(labels=labels + ['ill_conditioned_skipped'], nontrivial=False)
    if desc['normalize']:
        ref = ref / nref
        nref = 1.0
        if abs(np.linalg.norm(a) - 1) > 1e-8 + desc['tol']:     # (normalisation relies on the orthonormality of the Krylov basis)
            raise Violation('expmv:not_normalised', f'normalize=True returned a vector of norm {np.linalg.norm(a)}')
    err = np.linalg.norm(a - ref) / nref
    bound = (BOUND_FACTOR * desc['tol'] + 1e-11) * max(1.0, amp)
    if err > bound and hflag and desc['tau'] >= 100:
        raise Violation(KNOWN_LANCZOS, f'|expmv - expm(tF)v| / |expm(tF)v| = {err:.3e} > {bound:.3e} (hermitian=True, tol = {desc["tol"]}, |t| ||F|| = {desc["tau"]}, ncv = {desc["ncv"]})')
    if err > bound:
        raise Violation('expmv:inaccurate' + (':hermitian' if hflag else ':arnoldi'),
                        f'|expmv - expm(tF)v| / |expm(tF)v| = {err:.3e} > {bound:.3e} (tol = {desc["tol"]}, |t| ||F|| = {desc["tau"]}, ncv = {desc["ncv"]}, amplification {amp:.2e})')
    if info is not None:
        if desc['tau'] > 0 and info['steps'] < 1:
            raise Violation('expmv:info_steps', f'info = {info} for t != 0')
        if info['krylov_steps'] != mp.calls:
            raise Violation('expmv:info_krylov_steps', f"info['krylov_steps'] = {info['krylov_steps']} but f was called {mp.calls} times")
        if not (1 <= info['ncv'] <= max(30, desc['ncv'], 1)):
            raise Violation('expmv:info_ncv', f"info['ncv'] = {info['ncv']}")
        labels.append('substeps' if info['steps'] > 1 else 'single_step')
    if desc['tau'] == 0 and mp.calls != 0 and False:
        pass
    nt = mp.d >= 6 and desc['tau'] > 0 and (desc['ncv'] < mp.d or (info is not None and info['steps'] > 1))
    return Res(labels=labels + [f'err_over_tol:1e{int(math.floor(math.log10(max(err / desc["tol"], 1e-6))))}'], nontrivial=bool(nt),
               extra={'ratio': err / (desc['tol'] * max(1.0, amp) + 1e-13), 'steps': None if info is None else info['steps']})


# ---- eigs -----------------------------------------------------------------------------------------------------------------

def krylov_dim(F, a0, tol=1e-9):
    """Dimension of span{F^j a0} and an orthonormal basis of it (modified Gram-Schmidt with re-orthogonalisation)."""
    Q = []
    w = a0 / np.linalg.norm(a0)
    for _ in range(len(a0)):
        Q.append(w)
        w = F @ w
        nw0 = np.linalg.norm(w)
        for _ in range(2):
            for q in Q:
                w = w - np.vdot(q, w) * q
        nw = np.linalg.norm(w)
        if nw <= tol * max(nw0, 1e-300) or nw <= tol:
            break
        w = w / nw
    return len(Q), np.array(Q).T


def simulated_loss(F, a0, ncv, hermitian):
    """Loss of orthogonality ||V^H V - 1||_max of the documented algorithm (Arnoldi with classical Gram-Schmidt / three-term Lanczos, one
    extra orthogonalisation pass at a near-breakdown) run in NumPy on the dense map.  Used only as an applicability predicate: in floating
    point the exactness / variational clauses are meaningful while the Krylov basis is still orthonormal (the loss grows like eps * cond^2 of
    the Krylov matrix, e.g. ~1 after 18 steps on a 20-dimensional sector with a narrow spectrum)."""
    V = [a0 / np.linalg.norm(a0)]
    ambiguous = False
    for j in range(ncv):
        w = F @ V[-1]
        n0 = np.linalg.norm(w)
        if not hermitian:
            hs = [np.vdot(V[i], w) for i in range(j + 1)]
            w = w - sum(h * q for h, q in zip(hs, V))
        else:
            w = w - np.vdot(V[j], w) * V[j] - (0 if j == 0 else beta * V[j - 1])
        beta = np.linalg.norm(w)
        if beta < 1e-6 * n0:
            w = w - sum(np.vdot(q, w) * q for q in V)
            beta = np.linalg.norm(w)
        if 1e-15 * min(1.0, n0) < beta < 1e-7 * max(1.0, n0):
            ambiguous = True     # neither clearly a breakdown (threshold 1e-13) nor a regular step: the outcome depends on rounding
        if beta < 1e-13:
            break
        V.append(w / beta)
    Vm = np.array(V[:ncv]).T
    return float(np.max(np.abs(Vm.conj().T @ Vm - np.eye(Vm.shape[1])))), ambiguous


def order_by(vals, which):
    if which == 'LM':
        return np.argsort(-np.abs(vals), kind='stable')
    if which == 'SM':
        return np.argsort(np.abs(vals), kind='stable')
    if which == 'LR':
        return np.argsort(-vals.real, kind='stable')
    return np.argsort(vals.real, kind='stable')


def keyf(vals, which):
    return {'LM': -np.abs(vals), 'SM': np.abs(vals), 'LR': -vals.real, 'SR': vals.real}[which]


def draw_eigs(data, tier):
    from hypothesis import strategies as st
    desc = draw_map(data, tier)
    desc.update({'k': data.draw(st.sampled_from([1, 1, 2, 3])), 'which': data.draw(st.sampled_from(['SR', 'LR', 'LM', 'SM', 'SR'])),
                 'ncv': data.draw(st.sampled_from([10, 4, 3, 20, 6, 40, 2])), 'hflag': data.draw(st.booleans())})
    return desc


def execute_eigs(desc):
    mp = Map(desc)
    v, kind = mp.start()
    a0 = mp.vec(v)
    if np.linalg.norm(a0) == 0:
        raise Reject('zero_start')
    herm = desc['hermitian']
    hflag = desc['hflag'] and herm
    dimK, Q = krylov_dim(mp.F, a0)
    k, ncv, which = desc['k'], desc['ncv'], desc['which']
    labels = ['sym:' + desc['cfg']['sym'], 'start:' + kind, 'which:' + which, 'hermitian_map' if herm else 'general_map', f'hflag:{hflag}', f'k:{k}']
    if k > min(ncv, dimK) or ncv <= k and dimK > ncv:
        raise Reject('k_exceeds_krylov_space')      # documented: ncv must be greater than k
    nF = max(np.linalg.norm(mp.F, 2), 1e-300)
    try:
        vals, Y = yastn.eigs(mp.f, v, k=k, which=which, ncv=ncv, hermitian=hflag)
    except YastnError as e:
        raise Violation('eigs:unexpected_YastnError', str(e))
    vals = np.asarray(vals)
    if len(vals) != k or len(Y) != k:
        raise Violation('eigs:count', f'{len(vals)} values and {len(Y)} vectors returned for k = {k}')
    ys = []
    for y in Y:
        check_same_structure(y, v, 'eigs')
        ys.append(mp.vec(y))
    FK = Q.conj().T @ mp.F @ Q      # the map restricted to the reachable (Krylov) space
    evK = np.linalg.eigvalsh((FK + FK.conj().T) / 2) if herm else np.linalg.eigvals(FK)
    complete = ncv >= dimK
    loss, ambiguous = simulated_loss(mp.F, a0, ncv, hflag)
    if loss > 1e-10:
        return Res(labels=labels + ['orthogonality_lost_in_floating_point:structure_only'], nontrivial=False)
    if ambiguous:
        # a start vector that is invariant only up to rounding (numerical eigenvectors): whether the expansion stops is decided by noise
        return Res(labels=labels + ['ambiguous_breakdown:structure_only'], nontrivial=False)
    # well separated spectra only when order matters
    if complete:
        labels.append('krylov_space_exhausted')
        if not herm:
            # conditioning of the non-normal eigenproblem
            w_, U_ = np.linalg.eig(FK)
            if np.linalg.cond(U_) > 1e4:
                return Res(labels=labels + ['ill_conditioned_skipped'], nontrivial=False)
        for i, (th, y) in enumerate(zip(vals, ys)):
            ny = np.linalg.norm(y)
            if ny == 0:
                raise Violation('eigs:zero_vector', f'Ritz vector {i} is zero')
            r = np.linalg.norm(mp.F @ y - th * y) / (nF * ny)
            if r > 1e-7:
                raise Violation('eigs:residual', f'exhausted Krylov space (dim {dimK}, ncv {ncv}) but |F y - theta y| / (||F|| |y|) = {r:.3e} for pair {i}')
        ref = evK[order_by(evK, which)]
        kk = keyf(ref, which)
        got = keyf(vals, which)
        if np.max(np.abs(got - kk[:k])) > 1e-7 * nF:
            raise Violation('eigs:selection', f'which = {which}: returned {vals}, the {k} leading eigenvalues of the reachable space are {ref[:k]}')
        if np.any(np.diff(got) < -1e-9 * nF):
            raise Violation('eigs:order', f'which = {which}: values not ordered: {vals}')
    elif herm:
        labels.append('variational')
        lam = np.sort(evK)
        for i, (th, y) in enumerate(zip(vals, ys)):
            ny = np.linalg.norm(y)
            if ny == 0:
                raise Violation('eigs:zero_vector', f'Ritz vector {i} is zero')
            rq = np.vdot(y, mp.F @ y) / ny ** 2
            if abs(rq - th) > 1e-7 * nF:
                raise Violation('eigs:rayleigh', f'theta_{i} = {th} but <y|F|y> = {rq}')
            if th.real < lam[0] - 1e-9 * nF or th.real > lam[-1] + 1e-9 * nF:
                raise Violation('eigs:outside_spectrum', f'Ritz value {th} outside [{lam[0]}, {lam[-1]}]')
        rq0 = (np.vdot(a0, mp.F @ a0) / np.vdot(a0, a0)).real
        th = np.asarray(vals).real
        if which == 'SR':
            if th[0] > rq0 + 1e-9 * nF:
                raise Violation('eigs:variational', f'smallest Ritz value {th[0]} above the Rayleigh quotient of the start vector {rq0}')
            for i in range(k):      # Cauchy interlacing
                if th[i] < lam[i] - 1e-9 * nF:
                    raise Violation('eigs:interlacing', f'theta_{i} = {th[i]} below lambda_{i} = {lam[i]}')
        if which == 'LR':
            if th[0] < rq0 - 1e-9 * nF:
                raise Violation('eigs:variational', f'largest Ritz value {th[0]} below the Rayleigh quotient of the start vector {rq0}')
            for i in range(k):
                if th[i] > lam[-1 - i] + 1e-9 * nF:
                    raise Violation('eigs:interlacing', f'theta_{i} = {th[i]} above lambda_{-1 - i} = {lam[-1 - i]}')
    else:
        labels.append('general_incomplete:structure_only')
    nt = mp.d >= 6 and (not complete or dimK < mp.d or ncv < mp.d)
    return Res(labels=labels, nontrivial=bool(nt))


# ---- lin_solver -----------------------------------------------------------------------------------------------------------

def draw_lin(data, tier):
    from hypothesis import strategies as st
    desc = draw_map(data, tier)
    desc.update({'ncv': data.draw(st.sampled_from([10, 4, 3, 20, 6, 40, 2, 1])), 'hflag': data.draw(st.booleans()),
                 'v0': data.draw(st.sampled_from(['random', 'zero', 'b'])), 'pinv_tol': data.draw(st.sampled_from([1e-13, 1e-13, 1e-10])),
                 'bseed': data.draw(st.integers(0, 999)), 'diag_boost': data.draw(st.sampled_from([0.0, 3.0, 3.0]))})
    return desc


def execute_lin(desc):
    d2 = dict(desc)
    d2['shift'] = desc['shift'] + desc['diag_boost'] * (1 if desc['scale'] else 1)
    mp = Map(d2)
    b, kind = mp.start()
    C.reseed_backend(desc['bseed'])
    if desc['v0'] == 'random':
        v0 = yastn.rand(mp.config, legs=mp.legs, n=tuple(desc['n']), dtype=desc['vdtype'])
    elif desc['v0'] == 'zero':
        v0 = b * 0
    else:
        v0 = b.copy()
    herm = desc['hermitian']
    hflag = desc['hflag'] and herm
    bd, a0 = mp.vec(b), mp.vec(v0)
    q0 = bd - mp.F @ a0
    labels = ['sym:' + desc['cfg']['sym'], 'start:' + kind, 'v0:' + desc['v0'], 'hermitian_map' if herm else 'general_map', f'hflag:{hflag}']
    if np.linalg.norm(q0) <= 1e-13 * max(np.linalg.norm(bd), 1e-300):
        raise Reject('v0_already_solves')
    dimK, Q = krylov_dim(mp.F, q0)
    try:
        x, res = yastn.lin_solver(mp.f, b, v0, ncv=desc['ncv'], tol=1e-13, pinv_tol=desc['pinv_tol'], hermitian=hflag)
    except YastnError as e:
        raise Violation('lin_solver:unexpected_YastnError', str(e))
    check_same_structure(x, b, 'lin_solver')
    xd = mp.vec(x)
    true = np.linalg.norm(mp.F @ xd - bd)
    scale = max(np.linalg.norm(bd), np.linalg.norm(mp.F, 2) * np.linalg.norm(xd), 1e-300)
    if abs(float(res) - true) > 1e-9 * scale:
        raise Violation('lin_solver:reported_residual', f'reported residual {float(res):.6e}, true |F x - b| = {true:.6e}')
    cond = np.linalg.cond(mp.F) if mp.d else 1.0
    if true > np.linalg.norm(q0) * (1 + 1e-7) + 1e-9 * scale * min(cond, 1e6) * 0:
        if cond < 1e6:
            raise Violation('lin_solver:residual_increased', f'|F x - b| = {true:.6e} exceeds the residual of the initial guess {np.linalg.norm(q0):.6e}')
        labels.append('ill_conditioned')
    loss, ambiguous = simulated_loss(mp.F, q0, desc['ncv'], hflag)
    if loss > 1e-10 or ambiguous:
        labels.append('orthogonality_lost_in_floating_point:exactness_clause_skipped')      # (same applicability predicate as for eigs)
    elif desc['ncv'] >= dimK and cond < 1e4:
        labels.append('krylov_space_exhausted')
        if true > 1e-7 * cond * scale:
            raise Violation('lin_solver:not_solved', f'Krylov space of the initial residual exhausted (dim {dimK}, ncv {desc["ncv"]}) but |F x - b| = {true:.3e} (cond {cond:.1e})')
    nt = mp.d >= 6 and (desc['ncv'] < dimK or dimK < mp.d)
    return Res(labels=labels, nontrivial=bool(nt))


def parts(tier):
    return [HypPart('expmv', draw_expmv, execute_expmv, {'quick': 2500, 'thorough': 60000}),
            HypPart('eigs', draw_eigs, execute_eigs, {'quick': 2000, 'thorough': 40000}),
            HypPart('linsolve', draw_lin, execute_lin, {'quick': 1500, 'thorough': 30000})]
