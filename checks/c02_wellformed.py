"""C02 - Every produced tensor is well-formed and conserves charge.

Generated programs of 3-12 public operations (algebra, fusion, factorisations, block, constructors, masks, swap gates)
over a pool of tensors. After EVERY step every returned tensor must pass is_consistent() and an independent validator
(unique ordered blocks, selection rule under an independent group law, canonical charges, single-valued sector sizes,
shapes/size/data length, reproducible fusion histories, dense zero outside allowed sectors), and its total charge must
be the one the algebra dictates. Dense values are compared as in C01 where the model is independent.
"""
from vlib import program as P
from vlib.validate import validate_tensor
from vlib.runner import HypPart, Res, Violation

ID = 'C02'
RULE = ("One case = one generated program of 3-12 public operations. Non-trivial: >= 3 executed steps, some tensor with "
        ">= 2 blocks, and at least one of {non-zero charge, fusion step, lazy transpose later consumed, product symmetry, "
        "factorisation, block}. Distinct by SHA-1 of the program descriptor.")
ASSUMPTIONS = ["the validator uses only public accessors (get_legs, a[key], get_blocks_charge/shape, n, size, data, to_numpy)",
               "results of factorisations / block / constructors are re-based (model derived from the result) and then "
               "checked for well-formedness and charge only; their numerical clauses belong to C04/C13/C03",
               "programs are drawn live: the structure of re-based results is learned by running yastn while drawing"]

WEIGHTS = {'linalg': 1.5, 'ctor': 1.0, 'drop_leg_history': 0.5, 'block': 1.0, 'fuse': 3.0, 'unfuse': 2.5, 'swap_gate': 1.0,
           'new': 1.5, 'tensordot': 4.0, 'scalar': 0.8}


def draw(data, tier):
    return P.draw_program(data, tier, min_steps=3, max_steps=8 if tier == 'quick' else 12, weights=WEIGHTS, live=True)


def execute(desc):
    stats = {'maxblocks': 0, 'validated': 0}

    def on_step(k, step, y, m, yp, state):
        if not hasattr(y, 'get_blocks_charge'):
            return
        stats['maxblocks'] = max(stats['maxblocks'], len(y.get_blocks_charge()))
        r = validate_tensor(y)
        stats['validated'] += 1
        if r:
            raise P.StepFail('wellformed_' + r[0], r[1], k, step)
        if len(y.get_blocks_charge()):      # (to_nonsymmetric() of an entirely empty tensor raises: known finding listed under C01)
            # to_nonsymmetric() is a public operation too: its result, a tensor of the dense configuration, has to be well-formed
            r = validate_tensor(y.to_nonsymmetric())
            stats['validated'] += 1
            if r:
                raise P.StepFail('wellformed_to_nonsymmetric_' + r[0], r[1], k, step)

    try:
        state, yp, info = P.execute_program(desc, on_step=on_step, observers=False)
    except P.StepFail as e:
        f = e.step.get('f')
        raise Violation(f"{e.clause}:{e.step['op']}" + (f':{f}' if f else ''), f'{e}')
    labs = P.program_labels(desc, state)
    feats = labs & {'nonzero_charge', 'op:transpose', 'op:T', 'op:H', 'op:moveaxis', 'op:fuse', 'op:block',
                    'sym:Z2xU1', 'sym:U1xU1', 'sym:U1xU1xZ2'} or any(l.startswith('op:linalg') for l in labs)
    nt = info['steps'] >= 3 and stats['maxblocks'] >= 2 and bool(feats)
    return Res(labels=sorted(labs), nontrivial=nt)


def parts(tier):
    return [HypPart('programs', draw, execute, {'quick': 8000, 'thorough': 80000})]
