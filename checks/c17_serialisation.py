"""C17 - Serialisation round-trips every object exactly.

Part 'tensors' : generated tensor programs (whole vlib.program catalogue: diagonal, meta/hard fused, lazily transposed, empty, complex,
                 masked, blocked tensors); every pool tensor is sent through a generated route
                     to_dict(level 0/1/2[, resolve_ops]) [-> split_data_and_meta -> combine_data_and_meta] [-> numpy.save/load]
                     [-> dict_ver 1 form] -> Tensor.from_dict / yastn.from_dict [config=...]
                     save_to_hdf5 -> load_from_hdf5          save_to_dict (legacy generation) -> load_from_dict
                 and the restored tensor must (i) equal the ORIGINAL observationally: legs incl. fusion history, n, s, isdiag, dtype, config
                 knobs, dense values bit for bit, behaviour under follow-up operations (transpose / unfuse / contraction with the original);
                 (ii) agree with the independent NumPy model of the program (vlib.model); the original must be left untouched.
Part 'meta'    : to_dict(meta=...) against the meta of a tensor with more blocks: vector length, linearity, norm, round trip through
                 combine_data_and_meta, and rejection of tensors with blocks / legs / charge / signature outside meta, of a config with another
                 symmetry or statistics, and of a wrong 'type'.
Part 'mps'     : MPS / MPO (every operator family, with / without central block, with factor): to_dict levels, split/combine, numpy.save,
                 HDF5, legacy dictionaries; dense state, N, nr_phys, pC, factor and site tensors.
Part 'peps'    : Peps / Peps2Layers / DoublePepsTensor / EnvCTM / EnvBP / EnvBoundaryMPS / EnvCTM_c4v / Lattice on every lattice type: geometry
                 (dims, boundary, sites, bonds, site2index, nn_site), site data, environment tensors and projectors.
"""
import io
import warnings

import numpy as np

from vlib import common as C
from vlib import program as P
from vlib import mpsgen as G
from vlib.common import yastn, YastnError
from vlib.model import full_unfuse
from vlib.runner import HypPart, Res, Violation, Reject
import yastn.tn.mps as mps
import yastn.tn.fpeps as fpeps

ID = 'C17'
RULE = ("One case = one generated object (tensor program / MPS / PEPS object) and one or more serialisation routes. Non-trivial: the object "
        "carries a pending transpose, a fusion, a diagonal or empty or complex tensor, a central block, or is a PEPS-level container. "
        "Distinct by SHA-1 of the descriptor.")
ASSUMPTIONS = ["numpy.save is only used with level >= 1 (level 0 keeps the config module, documented as not convertible)",
               "HDF5 and the legacy save_to_dict resolve the pending transpose and absorb the central block (documented); they are compared observationally",
               "dict_ver 1 is emulated by deleting the 'trans' field of a dictionary without pending transpose"]

LEVELS = [2, 1, 0]


# ------------------------------------------------------------------------------------------------------------------------
# observational equality of tensors
# ------------------------------------------------------------------------------------------------------------------------

def same_tensor(a, b, tag, resolved=False):
    """Raise Violation unless tensor b is observationally identical to a."""
    def bad(clause, msg):
        raise Violation(f'{tag}:{clause}', msg)
    if type(b) is not type(a):
        bad('type', f'{type(b).__name__} restored from {type(a).__name__}')
    if tuple(a.n) != tuple(b.n):
        bad('charge', f'n {b.n} restored from {a.n}')
    if a.isdiag != b.isdiag:
        bad('isdiag', f'{b.isdiag} restored from {a.isdiag}')
    if tuple(a.s) != tuple(b.s) or tuple(a.s_n) != tuple(b.s_n):
        bad('signature', f's {b.s} / {b.s_n} restored from {a.s} / {a.s_n}')
    if a.yastn_dtype != b.yastn_dtype:
        bad('dtype', f'{b.yastn_dtype} restored from {a.yastn_dtype}')
    if a.get_legs() != b.get_legs() or a.get_legs(native=True) != b.get_legs(native=True):
        bad('legs', f'legs {b.get_legs()} restored from {a.get_legs()}')
    ha, hb = [l.history() for l in a.get_legs()], [l.history() for l in b.get_legs()]
    if ha != hb:
        bad('fusion_history', f'{hb} restored from {ha}')
    for f in ('sym', 'fermionic', 'default_fusion', 'force_fusion', 'tensordot_policy', 'default_dtype', 'backend', 'default_device'):
        if getattr(a.config, f) != getattr(b.config, f):
            bad('config', f'config.{f} = {getattr(b.config, f)} restored from {getattr(a.config, f)}')
    if sorted(zip(a.get_blocks_charge(), a.get_blocks_shape())) != sorted(zip(b.get_blocks_charge(), b.get_blocks_shape())):   # (storage order is free)
        bad('blocks', f'blocks {b.get_blocks_charge()} restored from {a.get_blocks_charge()}')
    xa, xb = a.to_numpy(), b.to_numpy()
    if xa.shape != xb.shape or not np.array_equal(xa, xb):
        bad('values', 'dense values differ')
    try:
        ua, ub = full_unfuse(a), full_unfuse(b)
        xa, xb = ua.to_numpy(), ub.to_numpy()
        if ua.get_legs() != ub.get_legs() or xa.shape != xb.shape or not np.array_equal(xa, xb):
            bad('unfused_values', 'dense values / legs after unfusing every leg differ')
        if a.ndim > 1 and not a.isdiag:
            perm = tuple(range(a.ndim))[::-1]
            ta, tb = a.transpose(perm), b.transpose(perm)
            if ta.get_legs() != tb.get_legs() or not np.array_equal(ta.to_numpy(), tb.to_numpy()):
                bad('follow_up_transpose', 'transposing the restored tensor differs from transposing the original')
        if not a.isdiag and a.ndim > 0:
            ax = tuple(range(a.ndim))
            za = yastn.tensordot(a, a, axes=(ax, ax), conj=(0, 1)).to_number()
            zb = yastn.tensordot(b, a, axes=(ax, ax), conj=(0, 1)).to_number()
            if za != zb:
                bad('follow_up_contraction', f'<a|restored> = {zb}, <a|a> = {za}')
        d = (a - b).norm()
        if d != 0:
            bad('follow_up_difference', f'norm(original - restored) = {d}')
        if not resolved and a.trans != b.trans:
            pass    # the stored permutation is an implementation detail as long as the observations agree
    except YastnError as e:
        bad('follow_up_raises', f'{e}')


def snap(t):
    d = t.to_dict(level=2)
    return (C.dhash({k: v for k, v in d.items() if k not in ('data', 'config')}), np.asarray(d['data']).tobytes(), bytes(np.asarray(t.data).tobytes()))


def np_roundtrip(d):
    buf = io.BytesIO()
    np.save(buf, d, allow_pickle=True)
    buf.seek(0)
    return np.load(buf, allow_pickle=True).item()


def h5file():
    import h5py
    return h5py.File('c17_in_memory.h5', 'w', driver='core', backing_store=False)


def draw_route(data, kinds):
    from hypothesis import strategies as st
    kind = data.draw(st.sampled_from(kinds))
    r = {'kind': kind, 'level': data.draw(st.sampled_from(LEVELS)), 'resolve': P.chance(data, 1, 4), 'squeeze': data.draw(st.booleans()),
         'npsave': P.chance(data, 1, 3), 'ver1': P.chance(data, 1, 5), 'loader': data.draw(st.sampled_from(['cls', 'general', 'cls_config', 'general_config'])),
         'sel': data.draw(st.integers(0, 50))}
    return r


def load_dict(d, route, cls, config):
    cfg = config if route['loader'].endswith('config') else None
    if route['loader'].startswith('general'):
        return yastn.from_dict(d, config=cfg)
    return cls.from_dict(d, config=cfg)


def tensor_roundtrip(y, route, config):
    """Returns (restored, resolved) - resolved: the route documents that pending operations are consumed."""
    kind = route['kind']
    if kind in ('dict', 'split'):
        d = y.to_dict(level=route['level'], resolve_ops=route['resolve'])
        if kind == 'split':
            dat, meta = yastn.split_data_and_meta(d, squeeze=route['squeeze'])
            if route['npsave'] and route['level'] >= 1:
                meta = np_roundtrip(meta)
            d = yastn.combine_data_and_meta(dat, meta)
        elif route['npsave'] and route['level'] >= 1:
            d = np_roundtrip(d)
        if route['ver1'] and route['resolve']:
            d = {k: v for k, v in d.items() if k != 'trans'}
            d['dict_ver'] = 1
        return load_dict(d, route, yastn.Tensor, config), route['resolve']
    if kind == 'hdf5':
        with h5file() as f:
            y.save_to_hdf5(f, 'some/path')
            return yastn.load_from_hdf5(config, f, 'some/path'), True
    if kind == 'legacy':
        with warnings.catch_warnings():
            warnings.simplefilter('ignore')
            d = y.save_to_dict()
        if route['npsave']:
            d = np_roundtrip(d)
        if route['loader'].startswith('general'):
            return yastn.load_from_dict(config, d), True
        return yastn.Tensor.from_dict(d, config), True
    raise ValueError(kind)


# ------------------------------------------------------------------------------------------------------------------------
# part: tensors
# ------------------------------------------------------------------------------------------------------------------------

W = {'fuse': 3.0, 'unfuse': 1.5, 'transpose': 2.5, 'moveaxis': 1.0, 'T': 0.8, 'H': 0.8, 'conj': 1.0, 'diag': 1.5, 'block': 1.0, 'ctor': 1.0,
     'apply_mask': 1.0, 'linalg': 0.8, 'tensordot': 2.0, 'add_leg': 1.0, 'new': 1.5, 'meta_to_hard': 0.8, 'flip_signature': 0.6, 'vdot': 0.0}


def draw_tensors(data, tier):
    from hypothesis import strategies as st
    prog = P.draw_program(data, tier, min_steps=1, max_steps=5 if tier == 'quick' else 8, weights=W, live=True)
    routes = [draw_route(data, ['dict', 'dict', 'split', 'hdf5', 'legacy']) for _ in range(data.draw(st.integers(1, 4)))]
    return {'prog': prog, 'routes': routes}


def execute_tensors(desc):
    try:
        state, yp, info = P.execute_program(desc['prog'], observers=False)
    except P.StepFail as e:
        raise Reject('program_fails_before_serialisation:' + e.clause)     # C01 / C03 / C04 territory
    config = C.make_config(desc['prog']['cfg'])
    labels, nt = [], False
    for route in desc['routes']:
        i = route['sel'] % len(yp)
        y, m, exact = yp[i], state.pool[i], state.exact[i]
        tag = 'tensor:' + route['kind']
        s0 = snap(y)
        try:
            y2, resolved = tensor_roundtrip(y, route, config)
        except YastnError as e:
            raise Violation(f'{tag}:raises_YastnError', f'{e}')
        if snap(y) != s0:
            raise Violation(f'{tag}:original_modified', 'serialisation modified the original tensor')
        same_tensor(y, y2, tag, resolved)
        if not state.opq[i]:
            r = P.check_result(y2, m, config, exact, observers=False)
            if r:
                raise Violation(f'{tag}:model:{r[0]}', r[1])
        feats = []
        if y.trans is not None and tuple(y.trans) != tuple(range(len(y.trans))):
            feats.append('pending_transpose')
        if y.isdiag:
            feats.append('diag')
        if any(l.is_fused() for l in y.get_legs()):
            feats.append('fused')
        if any(mf != (1,) for mf in y.mfs):
            feats.append('meta_fused')
        if len(y.get_blocks_charge()) == 0:
            feats.append('empty')
        if y.is_complex():
            feats.append('complex')
        if y.ndim == 0:
            feats.append('rank0')
        nt = nt or bool(feats)
        labels += [f'route:{route["kind"]}', f'level:{route["level"]}' if route['kind'] in ('dict', 'split') else 'level:-'] + ['feat:' + f for f in feats]
        if route['kind'] in ('dict', 'split'):
            labels += [f'loader:{route["loader"]}'] + (['npsave'] if route['npsave'] and route['level'] >= 1 else []) + \
                      (['dict_ver1'] if route['ver1'] and route['resolve'] else []) + (['resolve_ops'] if route['resolve'] else [])
    labels.append('sym:' + desc['prog']['cfg']['sym'])
    return Res(labels=sorted(set(labels)), nontrivial=nt)


# ------------------------------------------------------------------------------------------------------------------------
# part: meta
# ------------------------------------------------------------------------------------------------------------------------

def draw_meta(data, tier):
    from hypothesis import strategies as st
    cfg = P.draw_cfg(data)
    P._CUR_POOL.clear()
    P.draw_charge_pool(data, cfg['sym'], tier)
    rank = data.draw(st.sampled_from([2, 3, 4, 1]))
    isdiag = P.chance(data, 1, 6)
    if isdiag:
        td = P.draw_diag_desc(data, cfg, tier)
    else:
        td = P.draw_tensor_desc(data, cfg, tier, rank=rank, allow_drop=False)
    td['drop'] = 0
    if not isdiag and P.chance(data, 1, 3) and len(td['legs']) >= 2:
        # legs that look the same after reversing their order (one table, palindromic signature): a lazily transposed tensor then has the
        # same struct as a materialised one, and only the stored permutation tells them apart
        k = len(td['legs'])
        td['legs'] = [td['legs'][0]] * k
        half = [data.draw(st.sampled_from([1, -1])) for _ in range((k + 1) // 2)]
        td['s'] = (half + half[:k // 2][::-1])[:k]
        pick = [tuple(data.draw(st.sampled_from(td['legs'][0]['t']))) for _ in range(k)]
        td['n'] = list(C.gsum(cfg['sym'], pick, td['s']))
    drops = [data.draw(st.integers(0, 2 ** 12 - 1)), data.draw(st.integers(0, 2 ** 12 - 1))]
    return {'cfg': cfg, 'td': td, 'drops': drops, 'level': data.draw(st.sampled_from(LEVELS)),
            'dtypes': [data.draw(st.sampled_from(['float64', 'complex128'])) for _ in range(3)],
            'amps': [data.draw(st.sampled_from([2, -1, 0.5, 3])), data.draw(st.sampled_from([1, -2, {'re': 0, 'im': 1}]))],
            'perm_seed': data.draw(st.integers(0, 23)), 'lazy': data.draw(st.sampled_from([0, 0, 1, 2])),
            'fuse': data.draw(st.sampled_from([0, 0, 1, 2])), 'bad': data.draw(st.sampled_from(['extra_block', 'charge', 'signature', 'leg_dim', 'config_sym',
                                                                                         'config_fermionic', 'type', 'rank']))}


def _decorate(t, desc):
    """The same fusion / lazy transposition for the meta tensor and the members of its family."""
    if t.isdiag or t.ndim < 2:
        return t
    if desc['fuse'] and t.ndim >= 3:
        t = t.fuse_legs(axes=((0, 1),) + tuple(range(2, t.ndim)), mode='hard' if desc['fuse'] == 1 else 'meta')
    if desc['lazy'] == 1:
        t = t.transpose(tuple(range(t.ndim))[::-1])
    elif desc['lazy'] == 2:
        t = t.T
    return t


def execute_meta(desc):
    config = C.make_config(desc['cfg'])
    td = desc['td']
    lv = desc['level']

    def make(drop, dtype, seed):
        t = dict(td, drop=drop, dtype=dtype, seed=td.get('seed', 0) + seed)
        return C.build_tensor(config, t, 'float')[0]

    full = make(0, desc['dtypes'][0], 0)
    if len(full.get_blocks_charge()) == 0:
        raise Reject('no_allowed_block')
    a, b = make(desc['drops'][0], desc['dtypes'][1], 1), make(desc['drops'][1], desc['dtypes'][2], 2)
    full, a, b = _decorate(full, desc), _decorate(a, desc), _decorate(b, desc)
    vfull, meta = yastn.split_data_and_meta(full.to_dict(level=lv), squeeze=True)
    size = full.size
    labels = [f'level:{lv}', 'sym:' + desc['cfg']['sym'], f'lazy:{desc["lazy"]}', f'fuse:{desc["fuse"]}']

    def vec(t):
        try:
            v, m2 = yastn.split_data_and_meta(t.to_dict(level=lv, meta=meta), squeeze=True)
        except YastnError as e:
            raise Violation('meta:compatible_tensor_rejected', f'{e}')
        if m2 != meta:
            raise Violation('meta:meta_changed', 'to_dict(meta=meta) returns a dictionary whose meta differs from the supplied one')
        v = np.asarray(v)
        if v.shape != (size,):
            raise Violation('meta:vector_length', f'vector of shape {v.shape}, meta describes {size} elements')
        return v

    va, vb = vec(a), vec(b)
    for t, v, nm in ((a, va, 'a'), (b, vb, 'b')):
        if abs(np.linalg.norm(v) - float(t.norm())) > 1e-12 * max(1.0, float(t.norm())):
            raise Violation('meta:norm', f'|vector| = {np.linalg.norm(v)} for a tensor of norm {t.norm()}')
        vv = v if lv >= 2 else config.backend.to_tensor(v, dtype='complex128' if np.iscomplexobj(v) else 'float64')
        back = yastn.Tensor.from_dict(yastn.combine_data_and_meta(vv, meta))
        if back.get_legs() != full.get_legs() or tuple(back.n) != tuple(t.n) or tuple(back.s) != tuple(t.s):
            raise Violation('meta:round_trip_structure', 'combine_data_and_meta(vector, meta) does not have the legs / charge described by meta')
        try:
            dd = (back - t).norm()
        except YastnError as e:
            raise Violation('meta:round_trip', f'restored tensor cannot be compared with the original: {e}')
        if dd != 0:
            raise Violation('meta:round_trip', f'combine_data_and_meta(vector, meta) differs from the serialised tensor: norm of difference {dd}')
    # a meta taken from a freshly built tensor with the same logical legs (no pending permutation): a lazily transposed tensor must either be
    # serialised in the layout that meta describes or be rejected - never written in its own storage order
    for t in (a, b):
        if t.isdiag or tuple(t.trans) == tuple(range(t.ndim_n)):
            continue
        fresh = yastn.zeros(config, legs=t.get_legs(), n=t.n, dtype=t.yastn_dtype)
        if fresh.size == 0:
            continue
        _, meta2 = yastn.split_data_and_meta(fresh.to_dict(level=lv), squeeze=True)
        try:
            v2, m2 = yastn.split_data_and_meta(t.to_dict(level=lv, meta=meta2), squeeze=True)
        except YastnError:
            labels.append('lazy_tensor_vs_materialised_meta:rejected')
            continue
        labels.append('lazy_tensor_vs_materialised_meta:serialised')
        vv = v2 if lv >= 2 else config.backend.to_tensor(np.asarray(v2), dtype='complex128' if np.iscomplexobj(np.asarray(v2)) else 'float64')
        back = yastn.Tensor.from_dict(yastn.combine_data_and_meta(vv, meta2))
        try:
            dd = (back - t).norm()
        except YastnError as e:
            raise Violation('meta:lazy_round_trip', f'a lazily transposed tensor serialised against the meta of a materialised one cannot be compared after the round trip: {e}')
        if dd != 0:
            raise Violation('meta:lazy_round_trip', f'a lazily transposed tensor serialised against the meta of a materialised tensor with the same legs comes back different: norm of difference {dd}')
    al, be = C.cplx(desc['amps'][0]) if isinstance(desc['amps'][0], dict) else desc['amps'][0], C.cplx(desc['amps'][1]) if isinstance(desc['amps'][1], dict) else desc['amps'][1]
    vc = vec(al * a + be * b)
    ref = al * va + be * vb
    if not np.allclose(vc, ref, rtol=1e-13, atol=1e-13 * max(1.0, float(np.max(np.abs(ref))) if ref.size else 1.0)):
        raise Violation('meta:linearity', f'vector(al a + be b) differs from al vector(a) + be vector(b) by {np.max(np.abs(vc - ref)):.3e}')
    # rejections -------------------------------------------------------------------------------------------------
    bad = desc['bad']
    labels.append('reject:' + bad)
    exc = None
    try:
        if bad == 'extra_block':
            if len(a.get_blocks_charge()) >= len(full.get_blocks_charge()):
                labels[-1] = 'reject:none'
            else:
                _, small_meta = yastn.split_data_and_meta(a.to_dict(level=lv), squeeze=True)
                full.to_dict(level=lv, meta=small_meta)
                exc = 'a tensor with a block missing in meta was serialised against it'
        elif bad in ('charge', 'signature', 'leg_dim', 'rank'):
            if full.isdiag:
                labels[-1] = 'reject:none'
            else:
                legs = list(full.get_legs())
                n = full.n
                if bad == 'charge':
                    cands = [c_ for c_ in C.charge_box(desc['cfg']['sym'], 1) if tuple(c_) != tuple(n)]
                    other = None
                    for c_ in cands:
                        o = yastn.ones(config, legs=legs, n=c_)
                        if len(o.get_blocks_charge()):
                            other = o
                            break
                elif bad == 'signature':
                    other = yastn.ones(config, legs=[legs[0].conj().conj()] + legs[1:], n=n).flip_signature()
                elif bad == 'leg_dim':
                    l0 = legs[-1]
                    if l0.is_fused() or len(l0.t) == 0:
                        other = None
                    else:
                        other = yastn.ones(config, legs=legs[:-1] + [yastn.Leg(config, s=l0.s, t=l0.t, D=tuple(d_ + 1 for d_ in l0.D))], n=n)
                else:
                    other = yastn.ones(config, legs=legs, n=n).add_leg(axis=0)
                if other is None or len(other.get_blocks_charge()) == 0 or (desc['cfg']['sym'] == 'dense' and bad in ('charge',)):
                    labels[-1] = 'reject:none'
                else:
                    other.to_dict(level=lv, meta=meta)
                    exc = f'a tensor with a different {bad} was serialised against meta'
        elif bad in ('config_sym', 'config_fermionic'):
            cd = dict(desc['cfg'])
            if bad == 'config_sym':
                cd['sym'] = 'U1' if cd['sym'] != 'U1' else 'Z2'
            else:
                cd['fermionic'] = not bool(cd.get('fermionic'))
            yastn.Tensor.from_dict(full.to_dict(level=lv), config=C.make_config(cd))
            exc = f'from_dict accepted a config with a different {"symmetry" if bad == "config_sym" else "statistics"}'
        elif bad == 'type':
            d = dict(full.to_dict(level=lv), type='MpsMpoOBC')
            yastn.Tensor.from_dict(d)
            exc = "Tensor.from_dict accepted a dictionary of type 'MpsMpoOBC'"
    except YastnError:
        exc = None
    if exc:
        raise Violation('meta:not_rejected:' + bad, exc)
    nblocks = len(full.get_blocks_charge())
    return Res(labels=labels, nontrivial=nblocks >= 2 and (len(a.get_blocks_charge()) < nblocks or len(b.get_blocks_charge()) < nblocks))


# ------------------------------------------------------------------------------------------------------------------------
# part: mps
# ------------------------------------------------------------------------------------------------------------------------

def draw_mps(data, tier):
    from hypothesis import strategies as st
    fam = G.draw_family(data, tier)
    N = data.draw(st.sampled_from([3, 2, 4, 5, 1]))
    kind = data.draw(st.sampled_from(['mps', 'mps', 'mpo']))
    obj = G.draw_state_desc(data, fam, N, tier) if kind == 'mps' else G.draw_mpo_desc(data, fam, N, tier)
    return {'fam': fam, 'N': N, 'kind': kind, 'obj': obj, 'central': data.draw(st.sampled_from([None, None, 'first', 'last'])),
            'csite': data.draw(st.integers(0, N - 1)), 'factor': data.draw(st.sampled_from([1, 1, 0.5, -2, {'re': 0, 'im': 1}])),
            'routes': [draw_route(data, ['dict', 'dict', 'split', 'hdf5', 'legacy']) for _ in range(data.draw(st.integers(1, 3)))]}


def mps_roundtrip(psi, route, config):
    kind = route['kind']
    if kind in ('dict', 'split'):
        d = psi.to_dict(level=route['level'])
        if kind == 'split':
            dat, meta = yastn.split_data_and_meta(d)
            if route['npsave'] and route['level'] >= 1:
                meta = np_roundtrip(meta)
            d = yastn.combine_data_and_meta(dat, meta)
        elif route['npsave'] and route['level'] >= 1:
            d = np_roundtrip(d)
        return load_dict(d, route, type(psi), config), False
    if kind == 'hdf5':
        with h5file() as f:
            psi.save_to_hdf5(f, 'state/')
            return mps.load_from_hdf5(config, f, 'state/'), True
    if kind == 'legacy':
        with warnings.catch_warnings():
            warnings.simplefilter('ignore')
            d = psi.save_to_dict()
        if route['npsave']:
            d = np_roundtrip(d)
        return mps.load_from_dict(config, d), True
    raise ValueError(kind)


def same_mps(a, b, tag, absorbed, sp):
    if type(a) is not type(b) or a.N != b.N or a.nr_phys != b.nr_phys:
        raise Violation(f'{tag}:header', f'{type(b).__name__}(N={b.N}, nr_phys={b.nr_phys}) restored from {type(a).__name__}(N={a.N}, nr_phys={a.nr_phys})')
    da, db = G.dense(a, sp), G.dense(b, sp)
    if da.shape != db.shape or not np.allclose(da, db, rtol=1e-13, atol=1e-13 * max(1.0, float(np.max(np.abs(da))) if da.size else 1.0)):
        raise Violation(f'{tag}:state', 'the restored MPS/MPO represents a different state / operator')
    if absorbed:
        ref = a.shallow_copy()
        ref.absorb_central_()
        if b.pC is not None:
            raise Violation(f'{tag}:pC', f'central block {b.pC} after a route that absorbs it')
    else:
        ref = a
        if a.pC != b.pC:
            raise Violation(f'{tag}:pC', f'pC = {b.pC} restored from {a.pC}')
        if not np.array_equal(np.asarray(a.factor), np.asarray(b.factor)):
            raise Violation(f'{tag}:factor', f'factor {b.factor} restored from {a.factor}')
    if abs(complex(np.asarray(ref.factor)) - complex(np.asarray(b.factor))) > 1e-14 * abs(complex(np.asarray(ref.factor))):
        raise Violation(f'{tag}:factor', f'factor {b.factor} restored from {ref.factor}')
    if sorted(map(str, ref.A.keys())) != sorted(map(str, b.A.keys())):
        raise Violation(f'{tag}:sites', f'tensors at {sorted(map(str, b.A.keys()))} restored from {sorted(map(str, ref.A.keys()))}')
    for k in ref.A:
        same_tensor(ref.A[k], b.A[k], tag + ':site')


def execute_mps(desc):
    fam, N = desc['fam'], desc['N']
    ops, sp, named = G.family(fam)
    try:
        psi = G.build_state(desc['obj'], fam, N) if desc['kind'] == 'mps' else G.build_mpo(desc['obj'], fam, N)
    except YastnError as e:
        raise Reject('builder:' + str(e)[:40])
    if psi is None:
        raise Reject('zero_random_state')
    f = desc['factor']
    f = C.cplx(f) if isinstance(f, dict) else f
    if f != 1:
        psi = f * psi
    if desc['central'] is not None and N >= 1:
        psi = psi.shallow_copy()
        psi.orthogonalize_site_(desc['csite'], to=desc['central'], normalize=False)
    labels = ['kind:' + desc['kind'], 'family:%s:%s' % (G.FAMILIES[fam][0], G.FAMILIES[fam][1]['sym']), 'central:' + str(psi.pC is not None)]
    config = sp.config
    for route in desc['routes']:
        tag = f"{desc['kind']}:{route['kind']}"
        before = {k: snap(v) for k, v in psi.A.items()}
        try:
            psi2, absorbed = mps_roundtrip(psi, route, config)
        except YastnError as e:
            raise Violation(f'{tag}:raises_YastnError', f'{e}')
        if {k: snap(v) for k, v in psi.A.items()} != before:
            raise Violation(f'{tag}:original_modified', 'serialisation modified the original MPS/MPO')
        same_mps(psi, psi2, tag, absorbed, sp)
        labels += ['route:' + route['kind'], f'level:{route["level"]}' if route['kind'] in ('dict', 'split') else 'level:-']
    return Res(labels=sorted(set(labels)), nontrivial=psi.pC is not None or N >= 2)


# ------------------------------------------------------------------------------------------------------------------------
# part: peps
# ------------------------------------------------------------------------------------------------------------------------

GEOMS = [{'cls': 'square', 'dims': [2, 2], 'boundary': 'obc'}, {'cls': 'square', 'dims': [2, 3], 'boundary': 'infinite'},
         {'cls': 'square', 'dims': [3, 2], 'boundary': 'cylinder'}, {'cls': 'checker'}, {'cls': 'rect', 'pattern': [[0, 1], [1, 0]]},
         {'cls': 'rect', 'pattern': [[0, 1, 2], [1, 2, 0], [2, 0, 1]]}, {'cls': 'rect', 'pattern': [[0, 0], [0, 0]], 'form': 'dict'},
         {'cls': 'tri', 'full': False}, {'cls': 'tri', 'full': True, 'dims': [3, 3], 'boundary': 'infinite'},
         {'cls': 'tri', 'full': True, 'dims': [2, 2], 'boundary': 'obc'}, {'cls': 'tri', 'full': True, 'dims': [2, 3], 'boundary': 'obc'},
         {'cls': 'square', 'dims': [1, 1], 'boundary': 'infinite'}, {'cls': 'square', 'dims': [1, 3], 'boundary': 'obc'},
         {'cls': 'square', 'dims': [3, 3], 'boundary': 'obc'}]
OBJECTS = ['Peps', 'Peps', 'Peps2Layers', 'DoublePepsTensor', 'EnvCTM', 'EnvBP', 'EnvBoundaryMPS', 'EnvCTM_c4v', 'Lattice', 'EnvCTM_updated']


def draw_peps(data, tier):
    from hypothesis import strategies as st
    what = data.draw(st.sampled_from(OBJECTS))
    geoms = GEOMS
    if what == 'EnvBoundaryMPS':
        geoms = [g for g in GEOMS if g.get('boundary') == 'obc']
    elif what == 'EnvCTM_c4v':
        geoms = [g for g in GEOMS if g.get('dims') == [1, 1]]
    elif what.startswith('EnvCTM'):
        geoms = [g for g in GEOMS if g.get('boundary') != 'cylinder']
    return {'geom': data.draw(st.sampled_from(geoms)), 'object': what,
            'sym': data.draw(st.sampled_from(['U1', 'Z2', 'dense', 'U1xU1'])), 'fermionic': data.draw(st.booleans()),
            'seed': data.draw(st.integers(0, 999)), 'dtype': data.draw(st.sampled_from(['float64', 'complex128'])),
            'D': data.draw(st.sampled_from([1, 2])), 'route': draw_route(data, ['dict', 'dict', 'split', 'legacy']),
            'transposed_sites': data.draw(st.booleans())}


def geom_signature(g):
    """Everything a user can ask a geometry object."""
    out = {'type': type(g).__name__, 'dims': tuple(g.dims), 'boundary': g.boundary, 'sites': tuple(g.sites()), 'bonds': tuple(g.bonds()),
           'bonds_h': tuple(g.bonds('h')), 'bonds_v': tuple(g.bonds('v')), 'full_patch': getattr(g, 'full_patch', None)}
    if isinstance(g, fpeps.TriangularLattice):
        out['bonds_d'] = tuple(g.bonds('d'))
    win = [(x, y) for x in range(-2, g.Nx + 3) for y in range(-2, g.Ny + 3)]
    idx = {}
    for s in win:
        try:
            idx[s] = g.site2index(s)
        except Exception as e:      # outside a finite lattice
            idx[s] = type(e).__name__
    out['site2index'] = tuple(sorted(idx.items(), key=str))
    out['nn'] = tuple((s, d, g.nn_site(s, d=d)) for s in g.sites() for d in 'tlbr')
    return out


def peps_legs(config, sym, D, seed):
    if sym == 'dense':
        return yastn.Leg(config, s=1, D=(D + 1,)), yastn.Leg(config, s=1, D=(2,))
    z = tuple(0 for _ in C.MODULI[sym])
    o = tuple(1 for _ in C.MODULI[sym])
    lv = yastn.Leg(config, s=1, t=(z, o), D=(D, 1))
    lp = yastn.Leg(config, s=1, t=(z, o), D=(1, 1))
    return lv, lp


def build_peps(desc, seed_shift=0):
    import importlib
    c20 = importlib.import_module('checks.c20_geometry')
    config = C.make_config({'sym': desc['sym'], 'fermionic': desc['fermionic'] and desc['sym'] != 'dense'})
    g = c20.build_geometry(desc['geom'])
    lv, lp = peps_legs(config, desc['sym'], desc['D'], desc['seed'])
    psi = fpeps.Peps(g)
    C.reseed_backend(desc['seed'] + seed_shift)
    finite = desc['geom'].get('boundary') == 'obc'
    for site in g.sites():
        legs = [lv.conj(), lv, lv, lv.conj(), lp]
        if finite or desc['geom'].get('boundary') == 'cylinder':
            one = yastn.Leg(config, s=1, t=(tuple(0 for _ in C.MODULI[desc['sym']]),), D=(1,)) if desc['sym'] != 'dense' else yastn.Leg(config, s=1, D=(1,))
            x, y = site
            if x == 0:
                legs[0] = one.conj()
            if x == g.Nx - 1:
                legs[2] = one
            if finite and y == 0:
                legs[1] = one
            if finite and y == g.Ny - 1:
                legs[3] = one.conj()
        t = yastn.rand(config, legs=legs, dtype=desc['dtype'])
        if len(t.get_blocks_charge()) == 0:
            raise Reject('empty_peps_tensor')
        psi[site] = t
    return config, g, psi


def ket_of(psi):
    return psi.ket if isinstance(psi, fpeps.Peps2Layers) else psi


def same_lattice_data(a, b, tag):
    ga, gb = geom_signature(a.geometry), geom_signature(b.geometry)
    for k in ga:
        if ga[k] != gb[k]:
            raise Violation(f'{tag}:geometry:{k}', f'{k} = {str(gb[k])[:200]} restored from {str(ga[k])[:200]}')
    for s in a.sites():
        x, y = a[s], b[s]
        same_obj(x, y, tag)


def same_obj(x, y, tag):
    from dataclasses import is_dataclass, fields
    if x is None or y is None:
        if x is not y:
            raise Violation(f'{tag}:none', f'{y} restored from {x}')
        return
    if isinstance(x, yastn.Tensor):
        same_tensor(x, y, tag + ':tensor')
    elif isinstance(x, fpeps.DoublePepsTensor):
        if type(y) is not type(x) or tuple(x.trans) != tuple(y.trans) or x.swaps != y.swaps:
            raise Violation(f'{tag}:double_tensor', f'trans / swaps {y.trans} / {y.swaps} restored from {x.trans} / {x.swaps}')
        same_tensor(x.ket, y.ket, tag + ':double_tensor:ket')
        same_tensor(x.bra, y.bra, tag + ':double_tensor:bra')
        same_obj(x.op, y.op, tag + ':double_tensor:op')
        if x.get_legs() != y.get_legs() or x.get_shape() != y.get_shape():
            raise Violation(f'{tag}:double_tensor:legs', 'legs of the restored DoublePepsTensor differ')
    elif is_dataclass(x):
        if type(y) is not type(x):
            raise Violation(f'{tag}:dataclass', f'{type(y).__name__} restored from {type(x).__name__}')
        for f in fields(x):
            same_obj(getattr(x, f.name), getattr(y, f.name), f'{tag}:{type(x).__name__}')
    else:
        raise Violation(f'{tag}:unknown', f'do not know how to compare {type(x).__name__}')


def container_roundtrip(obj, route, config, cls):
    kind = route['kind']
    if kind == 'legacy':
        with warnings.catch_warnings():
            warnings.simplefilter('ignore')
            d = obj.save_to_dict()
        if route['npsave']:
            d = np_roundtrip(d)
        return fpeps.load_from_dict(config, d)
    try:
        d = obj.to_dict(level=route['level'], resolve_ops=route['resolve'])
    except TypeError:
        d = obj.to_dict(level=route['level'])
    if kind == 'split':
        dat, meta = yastn.split_data_and_meta(d)
        if route['npsave'] and route['level'] >= 1:
            meta = np_roundtrip(meta)
        d = yastn.combine_data_and_meta(dat, meta)
    elif route['npsave'] and route['level'] >= 1:
        d = np_roundtrip(d)
    return load_dict(d, route, cls, config)


def execute_peps(desc):
    config, g, psi = build_peps(desc)
    what = desc['object']
    route = dict(desc['route'])
    tag = f'{what}:{route["kind"]}'
    labels = ['object:' + what, 'geometry:' + desc['geom']['cls'] + ':' + str(desc['geom'].get('boundary', '')) + (':full' if desc['geom'].get('full') else ''),
              'route:' + route['kind'], 'sym:' + desc['sym']]
    infinite = 'i' in getattr(g, '_periodic', 'ii') if hasattr(g, '_periodic') else True
    finite = desc['geom'].get('boundary') == 'obc'
    try:
        if what == 'Peps':
            back = container_roundtrip(psi, route, config, fpeps.Peps)
            if type(back) is not fpeps.Peps:
                raise Violation(f'{tag}:type', f'{type(back).__name__} restored from Peps')
            same_lattice_data(psi, back, tag)
        elif what == 'Lattice':
            lat = fpeps.Lattice(g, objects={s: psi[s] for s in g.sites()})
            if route['kind'] == 'legacy':
                raise Reject('no_legacy_route')
            back = container_roundtrip(lat, route, config, fpeps.Lattice)
            if type(back) is not fpeps.Lattice:
                raise Violation(f'{tag}:type', f'{type(back).__name__} restored from Lattice')
            same_lattice_data(lat, back, tag)
        elif what == 'Peps2Layers':
            _, _, bra = build_peps(desc, seed_shift=1)
            two = fpeps.Peps2Layers(bra=bra, ket=psi)
            if route['kind'] == 'legacy':
                raise Reject('no_legacy_route')
            back = container_roundtrip(two, route, config, fpeps.Peps2Layers)
            if type(back) is not fpeps.Peps2Layers:
                raise Violation(f'{tag}:type', f'{type(back).__name__} restored from Peps2Layers')
            same_lattice_data(two.ket, back.ket, tag + ':ket')
            same_lattice_data(two.bra, back.bra, tag + ':bra')
            for s in g.sites():
                same_obj(two[s], back[s], tag)
        elif what == 'DoublePepsTensor':
            s0 = g.sites()[0]
            _, _, bra = build_peps(desc, seed_shift=1)
            t = fpeps.DoublePepsTensor(bra=bra[s0], ket=psi[s0])
            if desc['seed'] % 2:
                t = t.transpose((1, 2, 3, 0))
            if route['kind'] == 'legacy':
                raise Reject('no_legacy_route')
            route['resolve'] = False
            back = container_roundtrip(t, route, config, fpeps.DoublePepsTensor)
            same_obj(t, back, tag)
        elif what in ('EnvCTM', 'EnvCTM_updated'):
            if finite is False and desc['geom'].get('boundary') == 'cylinder':
                raise Reject('ctm_on_cylinder_not_exercised')
            env = fpeps.EnvCTM(psi, init='rand' if desc['seed'] % 2 else 'eye')
            if what == 'EnvCTM_updated':
                env.update_(opts_svd={'D_total': 4, 'tol': 1e-12}, method='2site')
            back = container_roundtrip(env, route, config, fpeps.EnvCTM)
            if type(back) is not fpeps.EnvCTM:
                raise Violation(f'{tag}:type', f'{type(back).__name__} restored from EnvCTM')
            same_lattice_data(ket_of(env.psi), ket_of(back.psi), tag + ':psi')
            same_lattice_data(env.env, back.env, tag + ':env')
            if route['kind'] != 'legacy':
                same_lattice_data(env.proj, back.proj, tag + ':proj')
        elif what == 'EnvBP':
            env = fpeps.EnvBP(psi, init='eye')
            env.update_() if hasattr(env, 'update_') and desc['seed'] % 2 else None
            back = container_roundtrip(env, route, config, fpeps.EnvBP)
            if type(back) is not fpeps.EnvBP:
                raise Violation(f'{tag}:type', f'{type(back).__name__} restored from EnvBP')
            same_lattice_data(ket_of(env.psi), ket_of(back.psi), tag + ':psi')
            if route['kind'] != 'legacy':
                same_lattice_data(env.env, back.env, tag + ':env')
            else:
                for s in env.sites():
                    for dirn in 'tlbr':
                        same_obj(getattr(env[s], dirn), getattr(back[s], dirn), tag + ':env')
        elif what == 'EnvBoundaryMPS':
            if not finite:
                raise Reject('boundary_mps_needs_finite_lattice')
            env = fpeps.EnvBoundaryMPS(psi, opts_svd={'D_total': 4}, setup='lr')
            back = container_roundtrip(env, route, config, fpeps.EnvBoundaryMPS)
            if type(back) is not fpeps.EnvBoundaryMPS:
                raise Violation(f'{tag}:type', f'{type(back).__name__} restored from EnvBoundaryMPS')
            same_lattice_data(ket_of(env.psi), ket_of(back.psi), tag + ':psi')
            if sorted(env._env, key=str) != sorted(back._env, key=str):
                raise Violation(f'{tag}:env_keys', f'{sorted(back._env, key=str)} restored from {sorted(env._env, key=str)}')
            for k in env._env:
                a, b = env._env[k], back._env[k]
                if a.N != b.N or a.nr_phys != b.nr_phys or a.pC != b.pC:
                    raise Violation(f'{tag}:env_mps', 'boundary MPS header differs')
                for n in a.A:
                    same_tensor(a.A[n], b.A[n], tag + ':env_mps')
            if {k: v for k, v in env.info.items()} != {k: v for k, v in back.info.items()}:
                raise Violation(f'{tag}:info', 'info dictionaries differ')
        elif what == 'EnvCTM_c4v':
            if desc['geom'] != {'cls': 'square', 'dims': [1, 1], 'boundary': 'infinite'}:
                raise Reject('c4v_needs_single_site')
            if route['kind'] == 'legacy':
                raise Reject('no_legacy_route')
            env = fpeps.EnvCTM_c4v(psi, init='eye')
            back = container_roundtrip(env, route, config, fpeps.EnvCTM_c4v)
            if type(back) is not fpeps.EnvCTM_c4v:
                raise Violation(f'{tag}:type', f'{type(back).__name__} restored from EnvCTM_c4v')
            same_lattice_data(env.env, back.env, tag + ':env')
    except YastnError as e:
        raise Violation(f'{tag}:raises_YastnError', f'{e}')
    return Res(labels=labels, nontrivial=True)


def parts(tier):
    return [HypPart('tensors', draw_tensors, execute_tensors, {'quick': 3000, 'thorough': 60000}),
            HypPart('meta', draw_meta, execute_meta, {'quick': 1500, 'thorough': 30000}),
            HypPart('mps', draw_mps, execute_mps, {'quick': 800, 'thorough': 15000}),
            HypPart('peps', draw_peps, execute_peps, {'quick': 500, 'thorough': 8000})]
