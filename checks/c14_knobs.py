"""C14 - Results do not depend on contraction policy, fusion mode or lazy state.

Part 'pairs'  : a generated program is executed under two environments that differ only in a performance knob:
                tensordot_policy (all pairs), default_fusion hard/meta or force_fusion, or lazy vs eager (the eager run
                materialises pending permutations with consume_transpose()/copy() at drawn positions). Legs, charge,
                dense values and block access must agree after every step (policy / lazy pairs) or after complete unfusion
                at the end (fusion pairs).
Part 'unroll' : contract_with_unroll / contract_with_unroll_compute_constants on random networks for optimiser paths and
                random pairwise paths and for per-sector, uniform-size and hand-drawn intra-sector slicings of contracted
                and output labels: equal to ncon and to the dense einsum exactly.
"""
import itertools

import numpy as np

from vlib import common as C
from vlib import program as P
from vlib.common import yastn, YastnError
from vlib.model import ELeg, model_from_desc, full_unfuse
from vlib.runner import HypPart, Res, Violation, Reject

ID = 'C14'
RULE = ("pairs: one program + one knob pair; non-trivial when the program contains a contraction over >= 2 axes, or over a fused "
        "leg, or a pending transpose consumed by a contraction/fusion/factorisation. unroll: one network + path + slicing; "
        "non-trivial when a contracted label has >= 2 slices and the path is not left-to-right or >= 3 tensors take part. "
        "Distinct by SHA-1 of the descriptor.")
ASSUMPTIONS = ["integer data: exact equality between the two runs; after the single permitted factorisation, factors are compared "
               "bitwise first and through gauge-invariant products (1e-10) otherwise",
               "fusion-mode pairs are compared after full unfusion because the dense index order of a fused leg is mode dependent by design"]

POLICIES = ['fuse_to_matrix', 'fuse_contracted', 'no_fusion']
W_COMMON = {name: 0.0 for name in P.OPS}
W_COMMON.update({'new': 1.0, 'tensordot': 5.0, 'add': 1.5, 'trace': 1.5, 'transpose': 2.5, 'moveaxis': 0.5, 'T': 0.3, 'H': 0.3,
                 'fuse': 3.0, 'unfuse': 2.0, 'conj': 0.5, 'vdot': 0.7, 'swap_gate': 0.7, 'scalar': 0.3, 'meta_to_hard': 0.3,
                 'consume_transpose': 0.3})
W_POLICY = dict(W_COMMON, linalg=0.6, apply_mask=0.7, broadcast=0.7, diag=0.3)
W_FUSION = dict(W_COMMON)
W_LAZY = dict(W_POLICY, add=4.0, transpose=3.5, T=0.6, H=0.6)      # sums of several operands with different pending transposes


def draw_pair_case(data, tier):
    from hypothesis import strategies as st
    kind = data.draw(st.sampled_from(['policy', 'fusion', 'lazy', 'policy', 'lazy']))
    cfg = P.draw_cfg(data)
    w = W_FUSION if kind == 'fusion' else W_LAZY if kind == 'lazy' else W_POLICY
    prog = P.draw_program(data, tier, cfg=cfg, min_steps=3, max_steps=7 if tier == 'quick' else 10, weights=w, live=True)
    # at most one factorisation
    seen, steps = False, []
    for s_ in prog['steps']:
        if s_['op'] == 'linalg':
            if seen:
                break
            seen = True
        steps.append(s_)
    prog['steps'] = steps
    d = {'prog': prog, 'kind': kind}
    if kind == 'policy':
        d['other'] = data.draw(st.sampled_from([p for p in POLICIES if p != cfg.get('policy')]))
    elif kind == 'fusion':
        d['how'] = data.draw(st.sampled_from(['default', 'force']))
        if d['how'] == 'default':
            for s_ in prog['steps']:
                if s_['op'] == 'fuse':
                    s_['mode'] = None      # the default mode decides
        else:
            d['force'] = data.draw(st.sampled_from(['hard', 'meta']))
    else:
        n = len(prog['steps'])
        d['eager_at'] = sorted(set(data.draw(st.lists(st.integers(0, max(0, n - 1)), max_size=n)))) if not P.chance(data, 1, 4) else list(range(n))
        d['how'] = data.draw(st.sampled_from(['consume_transpose', 'copy', 'consume_transpose']))
    return d


def run_raw(prog, cfg, eager_at=(), eager_how='consume_transpose'):
    """Execute the program on yastn only. Returns list of per-step outputs (lists of tensors or numbers)."""
    config = C.make_config(cfg)
    yp, outs = [], []
    for k, step in enumerate(prog['steps']):
        y = P.OPS[step['op']].yastn(yp, step, config)
        ys = list(y) if isinstance(y, (tuple, list)) else [y]
        cur = []
        for yi in ys:
            if isinstance(yi, yastn.Tensor):
                if k in eager_at:
                    yi = yi.consume_transpose() if eager_how == 'consume_transpose' else yi.copy().consume_transpose()
                yp.append(yi)
            cur.append(yi)
        outs.append(cur)
    return outs, yp


def same_tensor(a, b, exact=True, raw=False):
    if tuple(a.n) != tuple(b.n):
        return f'charge {a.n} vs {b.n}'
    if a.isdiag != b.isdiag or a.ndim != b.ndim:
        return f'isdiag/ndim {a.isdiag, a.ndim} vs {b.isdiag, b.ndim}'
    if len(a.get_blocks_charge()) == 0 and len(b.get_blocks_charge()) == 0:
        # entirely empty tensors: yastn derives legs from stored blocks, so the sectors of an empty tensor are not an observable (a hard-fused
        # leg remembers its sub-sectors in the fusion record, a meta-fused one does not); signature and charge were compared above
        return None if tuple(a.s) == tuple(b.s) else f'signature {a.s} vs {b.s}'
    if a.get_legs() != b.get_legs():
        # a result sector that is identically zero may be stored as an explicit zero block under one setting and left out under the other
        # (e.g. a trace over mismatched hard-fused legs): both describe the same array, so the comparison is repeated without zero blocks
        a2, b2 = a.remove_zero_blocks(), b.remove_zero_blocks()
        if (len(a2.get_blocks_charge()) or len(b2.get_blocks_charge())) and a2.get_legs() != b2.get_legs():
            return f'legs {a.get_legs()} vs {b.get_legs()}'
        if len(a2.get_blocks_charge()) == 0 and len(b2.get_blocks_charge()) == 0:
            return None if tuple(a.s) == tuple(b.s) else f'signature {a.s} vs {b.s}'
        a, b = a2, b2
    A, B = a.to_numpy(), b.to_numpy()
    if exact:
        if not np.array_equal(A, B):
            return f'dense values differ (max |diff| {np.max(np.abs(A - B)) if A.size else 0})'
    elif A.size and not np.allclose(A, B, rtol=1e-10, atol=1e-10 * max(1.0, np.max(np.abs(A)))):
        return f'dense values differ beyond tolerance (max |diff| {np.max(np.abs(A - B))})'
    # block access through a[key]
    A2, B2 = C.dense_from_blocks(a), C.dense_from_blocks(b)
    if A2.shape != B2.shape or (exact and not np.array_equal(A2, B2)) or (not exact and A2.size and not np.allclose(A2, B2, rtol=1e-10, atol=1e-10)):
        return 'block access a[key] differs'
    if raw and len(a.get_blocks_charge()) == 1 and len(b.get_blocks_charge()) == 1:
        ra, rb = np.asarray(a.to_raw_tensor()), np.asarray(b.to_raw_tensor())
        if ra.shape != rb.shape or not (np.array_equal(ra, rb) if exact else np.allclose(ra, rb, rtol=1e-10, atol=1e-10)):
            return f'to_raw_tensor() differs: shapes {ra.shape} vs {rb.shape}'
    return None


def execute_pair_case(desc):
    prog, kind = desc['prog'], desc['kind']
    cfgA = dict(prog['cfg'])
    cfgB = dict(cfgA)
    eager = ()
    if kind == 'policy':
        cfgB['policy'] = desc['other']
    elif kind == 'fusion':
        if desc['how'] == 'default':
            cfgB['fusion'] = 'meta' if cfgA.get('fusion', 'hard') == 'hard' else 'hard'
        else:
            cfgB['force'] = desc['force']
    else:
        eager = set(desc['eager_at'])
    try:
        outsA, ypA = run_raw(prog, cfgA)
    except YastnError:
        raise Reject('reference_run_rejected')     # belongs to C01/C02
    try:
        outsB, ypB = run_raw(prog, cfgB, eager, desc.get('how', 'consume_transpose'))
    except YastnError as e:
        raise Violation(f'{kind}:second_run_rejected', f'the program runs under {cfgA} but raises under the other environment: {e}')
    except Exception as e:
        raise Violation(f'{kind}:second_run_{type(e).__name__}', str(e)[:300])
    after_linalg = False
    feats = set()
    for k, (step, oa, ob) in enumerate(zip(prog['steps'], outsA, outsB)):
        if step['op'] == 'linalg':
            after_linalg = True
        if step['op'] == 'tensordot' and len(step['axes'][0]) >= 2:
            feats.add('multi_axis_contraction')
        if len(oa) != len(ob):
            raise Violation(f'{kind}:outputs', f'step {k}: {len(oa)} vs {len(ob)} outputs')
        for ya, yb in zip(oa, ob):
            if not isinstance(ya, yastn.Tensor):
                if complex(ya) != complex(yb) and not (after_linalg and abs(complex(ya) - complex(yb)) <= 1e-10 * max(1.0, abs(complex(ya)))):
                    raise Violation(f'{kind}:number', f"step {k} ({step['op']}): {ya} vs {yb}")
                continue
            if kind == 'fusion':
                continue
            r = same_tensor(ya, yb, exact=not after_linalg, raw=(kind == 'lazy'))
            if r and step['op'] == 'linalg':
                r = None if _gauge_equal(step, oa, ob) else r
            if r:
                raise Violation(f"{kind}:{step['op']}", f"step {k} ({step['op']}): {r}")
    if kind == 'fusion':
        # compare every final pool tensor after complete unfusion
        for i, (ya, yb) in enumerate(zip(ypA, ypB)):
            ua, ub = full_unfuse(ya), full_unfuse(yb)
            r = same_tensor(ua, ub, exact=not after_linalg)
            if r:
                raise Violation('fusion:after_unfuse', f'pool tensor {i}: {r}')
    labs = {'kind:' + kind, 'sym:' + cfgA['sym']}
    ops = [s_['op'] for s_ in prog['steps']]
    if 'fuse' in ops and 'tensordot' in ops:
        feats.add('fuse_and_contract')
    if any(o in ops for o in ('transpose', 'moveaxis', 'T', 'H')) and any(o in ops for o in ('tensordot', 'fuse', 'linalg', 'trace')):
        feats.add('lazy_then_consumed')
    labs |= feats
    if after_linalg:
        labs.add('with_factorisation')
    return Res(labels=sorted(labs), nontrivial=bool(feats))


def _gauge_equal(step, oa, ob):
    """Factor outputs differ bitwise: accept when the gauge-invariant product agrees."""
    try:
        f = step['f']
        if f in ('svd', 'svd_trunc'):
            Ua, Sa, Va = oa
            Ub, Sb, Vb = ob
            pa = Ua.moveaxis(step['Uaxis'], -1) @ Sa @ Va.moveaxis(step['Vaxis'], 0)
            pb = Ub.moveaxis(step['Uaxis'], -1) @ Sb @ Vb.moveaxis(step['Vaxis'], 0)
        elif f == 'qr':
            pa = oa[0].moveaxis(step['Uaxis'], -1) @ oa[1].moveaxis(step['Vaxis'], 0)
            pb = ob[0].moveaxis(step['Uaxis'], -1) @ ob[1].moveaxis(step['Vaxis'], 0)
        else:
            return np.allclose(oa[0].to_numpy(), ob[0].to_numpy(), rtol=1e-9, atol=1e-9)
        return same_tensor(pa, pb, exact=False) is None
    except Exception:
        return False


# ---- unroll -----------------------------------------------------------------------------------------------------

def draw_unroll_case(data, tier):
    from hypothesis import strategies as st
    cfg = P.draw_cfg(data)
    sym = cfg['sym']
    P._CUR_POOL.clear()
    P.draw_charge_pool(data, sym, tier)
    nt = data.draw(st.sampled_from([2, 3, 3, 4, 2]))
    labels = 'abcdefghij'
    slots = [[] for _ in range(nt)]
    tabs = {}
    nlab = 0
    # a spanning chain so the network is connected, then extra bonds and open legs
    bonds = [(i, i + 1) for i in range(nt - 1)]
    for _ in range(data.draw(st.integers(0, 2))):
        a, b = sorted(data.draw(st.permutations(list(range(nt))))[:2])
        bonds.append((a, b))
    for a, b in bonds:
        if len(slots[a]) >= 4 or len(slots[b]) >= 4:
            continue
        lab = labels[nlab]
        nlab += 1
        tb = P.draw_table(data, sym, tier, max_sectors=3, maxD=3)
        s = data.draw(st.sampled_from([1, -1]))
        tabs[lab] = tb
        slots[a].append((lab, s))
        slots[b].append((lab, -s))
    out = []
    for _ in range(data.draw(st.sampled_from([1, 2, 2, 3]))):
        a = data.draw(st.integers(0, nt - 1))
        if len(slots[a]) >= 4:
            continue
        lab = labels[nlab]
        nlab += 1
        tabs[lab] = P.draw_table(data, sym, tier, max_sectors=3, maxD=3)
        slots[a].append((lab, data.draw(st.sampled_from([1, -1]))))
        out.append(lab)
    out = list(data.draw(st.permutations(out))) if out else out
    assign = {lab: tuple(data.draw(st.sampled_from(tb['t']))) for lab, tb in tabs.items()}
    tensors, igs = [], []
    for sl in slots:
        sl = list(data.draw(st.permutations(sl)))
        legs = [tabs[lab] for lab, _ in sl]
        ss = [s for _, s in sl]
        n = C.gsum(sym, [assign[lab] for lab, _ in sl], ss)
        tensors.append(P.draw_tensor_desc(data, cfg, tier, legs=legs, s=ss, n=n, allow_drop=P.chance(data, 1, 6)))
        igs.append([lab for lab, _ in sl])
    contracted = sorted(lab for lab in tabs if lab not in out)
    # unroll specification
    unroll = {}
    cand = contracted + out
    for lab in data.draw(st.permutations(cand))[:data.draw(st.sampled_from([1, 1, 2, 2, 3, 0]))]:
        if any(lab in ig and all(x == lab or x in unroll for x in ig) for ig in igs):
            continue      # keep at least one non-unrolled index on every tensor (the path search needs a shape)
        how = data.draw(st.sampled_from(['sector', 'int', 'custom']))
        if how == 'int':
            unroll[lab] = {'how': 'int', 'size': data.draw(st.sampled_from([1, 2, 3, 4]))}
        elif how == 'sector':
            unroll[lab] = {'how': 'sector'}
        else:
            # hand-drawn partition: every sector is cut at drawn points, pieces are distributed over 2-3 slices
            nsl = data.draw(st.sampled_from([2, 3, 2]))
            pieces = []
            for t, D in zip(tabs[lab]['t'], tabs[lab]['D']):
                cuts = sorted(set(data.draw(st.lists(st.integers(1, max(1, D - 1)), max_size=2)))) if D > 1 else []
                pts = [0] + [c for c in cuts if 0 < c < D] + [D]
                for lo, hi in zip(pts, pts[1:]):
                    pieces.append([list(t), lo, hi, data.draw(st.integers(0, nsl - 1))])
            unroll[lab] = {'how': 'custom', 'pieces': pieces, 'nsl': nsl}
    path_kind = data.draw(st.sampled_from(['optimizer', 'random', 'random']))
    path = None
    if path_kind == 'random':
        # random pairwise path over connected pairs (an outer product first cannot be expressed through ncon labels)
        path, cur = [], [set(ig) for ig in igs]
        while len(cur) > 1:
            pairs = [(i, j) for i in range(len(cur)) for j in range(i + 1, len(cur)) if cur[i] & cur[j]]
            if not pairs:
                pairs = [(0, 1)]
            i, j = data.draw(st.sampled_from(pairs))
            path.append([i, j])
            merged = cur[i] ^ cur[j]
            cur = [c for k_, c in enumerate(cur) if k_ not in (i, j)] + [merged]
    return {'cfg': cfg, 'tensors': tensors, 'igs': igs, 'out': out, 'unroll': unroll, 'path': path,
            'constants': data.draw(st.booleans())}


def build_unroll(desc, ts):
    from yastn import SlicedLeg, make_sliced_legs
    un = {}
    for lab, spec in desc['unroll'].items():
        leg = None
        for t, ig in zip(ts, desc['igs']):
            if lab in ig:
                leg = t.get_legs(ig.index(lab))
                break
        if spec['how'] == 'int':
            un[lab] = spec['size']
        elif spec['how'] == 'sector':
            un[lab] = make_sliced_legs(leg)
        else:
            groups = {}
            for t, lo, hi, g in spec['pieces']:
                t = tuple(t)
                if t not in leg.t:
                    continue         # sector absent from the actual tensor
                groups.setdefault(g, []).append((t, lo, hi))
            sls = []
            for g, items in sorted(groups.items()):
                # one SlicedLeg can hold one slice per sector: split further when a sector appears twice
                while items:
                    seen, cur, rest = set(), [], []
                    for it in items:
                        (cur if it[0] not in seen else rest).append(it)
                        seen.add(it[0])
                    sls.append(SlicedLeg(t=[i[0] for i in cur], D=[i[2] - i[1] for i in cur],
                                         slices={i[0]: slice(i[1], i[2]) for i in cur}))
                    items = rest
            if not sls:
                continue
            un[lab] = sls
    return un


KNOWN_EMPTY_CONSTANT = 'unroll:compute_constants_with_empty_constant_subnetwork'


def execute_unroll_case(desc):
    cfg = desc['cfg']
    config = C.make_config(cfg)
    sym = cfg['sym']
    ts = [C.build_tensor(config, td)[0] for td in desc['tensors']]
    if any(len(t.get_blocks_charge()) == 0 for t in ts):
        raise Reject('empty_operand')
    args = []
    for t, ig in zip(ts, desc['igs']):
        args += [t, tuple(ig)]
    args.append(tuple(desc['out']))
    # dense reference
    ferm = cfg.get('fermionic', False)
    models = [model_from_desc(sym, ferm if not isinstance(ferm, list) else tuple(ferm), td) for td in desc['tensors']]
    sub = ','.join(''.join(ig) for ig in desc['igs']) + '->' + ''.join(desc['out'])
    ref = np.einsum(sub, *[m.E for m in models])
    out_legs = {}
    for o, lab in enumerate(desc['out']):
        for m, ig in zip(models, desc['igs']):
            if lab in ig:
                l = m.legs[ig.index(lab)]
                out_legs[o] = C.mk_leg(config, l.s, l.tD)
    try:
        un = build_unroll(desc, ts)
        if desc['path'] is None:
            try:
                path, info = yastn.get_contraction_path(*args, unroll=dict(un) if un else None)
            except (IndexError, ValueError, KeyError, TypeError) as e:
                raise Reject('path_search_failed')      # opt_einsum's domain (e.g. a tensor left without indices)
        else:
            path = [tuple(p) for p in desc['path']]
        fn = yastn.tensor.oe_blocksparse.contract_with_unroll_compute_constants if desc['constants'] else yastn.contract_with_unroll
        un2 = build_unroll(desc, ts)   # fresh objects: integer specifications are resolved in place by the library
        plain = yastn.contract_with_unroll(*args, optimize=path)
        try:
            res = fn(*args, unroll=un2 if un2 else None, optimize=path)
        except ValueError as e:
            if desc['constants'] and not np.any(ref) and 'correct number of indices' in str(e):
                raise Violation(KNOWN_EMPTY_CONSTANT, str(e))
            raise
    except YastnError as e:
        raise Violation('unroll:unexpected_YastnError', str(e))
    except (AssertionError, KeyError, IndexError, ValueError, TypeError) as e:
        raise Violation('unroll:unexpected_' + type(e).__name__, str(e)[:300])
    for nm, r in (('unrolled', res), ('plain', plain)):
        if tuple(r.n) != C.gsum(sym, [m.n for m in models], [1] * len(models)):
            raise Violation(f'unroll:{nm}_charge', f'n = {r.n}')
        try:
            got = r.to_numpy(legs=out_legs) if out_legs else r.to_numpy()
        except YastnError as e:
            raise Violation(f'unroll:{nm}_legs', str(e))
        if got.shape != ref.shape or not np.array_equal(got, ref):
            raise Violation(f'unroll:{nm}_values', f'{nm} contraction differs from the dense einsum '
                                                   f'(max |diff| {np.max(np.abs(got - ref)) if got.shape == ref.shape else "shape"})')
    nsl = {lab: (len(v) if isinstance(v, list) else None) for lab, v in un.items()}
    contracted_sliced = any(lab not in desc['out'] and (n is None or n >= 2) for lab, n in nsl.items())
    labels = ['sym:' + sym, f'tensors:{len(ts)}', 'path:' + ('optimizer' if desc['path'] is None else 'random'),
              'constants' if desc['constants'] else 'plain'] + sorted({'unroll:' + s_['how'] for s_ in desc['unroll'].values()})
    if not un:
        labels.append('no_unroll')
    nt = contracted_sliced and (len(ts) >= 3 or (desc['path'] is not None and desc['path'] != [[0, 1]]))
    return Res(labels=labels, nontrivial=nt)


def parts(tier):
    return [HypPart('pairs', draw_pair_case, execute_pair_case, {'quick': 2500, 'thorough': 40000}),
            HypPart('unroll', draw_unroll_case, execute_unroll_case, {'quick': 800, 'thorough': 20000})]
