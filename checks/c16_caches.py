"""C16 - Metadata caches are transparent.

One case = a history: 2-3 'twin' programs (the same operation sequence re-created block by block under different
symmetry groups / fermionic flags, so that struct and slices coincide) interleaved step by step, with clear_cache() and
set_cache_maxsize(k) inserted at drawn positions. Oracles:
 (a) differential: every step's outcome (result bytes/structure or exception type) equals the outcome of the same history run
     with every memoised function replaced by its undecorated version;
 (b) per-hit audit: every call of a memoised function is compared with a fresh recomputation, and with the digest recorded
     when that key was first inserted (detects wrong keys and post-insertion mutation of cached values);
 (c) order independence: a second interleaving of the same programs gives identical per-program results.
Memoised functions are discovered structurally (objects with cache_info and __wrapped__ in yastn.* modules) and every alias
is re-bound, because set_cache_maxsize() itself re-binds only one alias per function.
"""
import hashlib
import sys

import numpy as np

from vlib import common as C
from vlib import program as P
from vlib.common import yastn, YastnError
from vlib.runner import HypPart, Res, Violation, Reject

ID = 'C16'
RULE = ("One case = one interleaved history of twin programs with cache operations. Non-trivial: the audited run saw >= 1 cache hit "
        "on a key inserted while a different twin program was running, or a clear/resize between the insertion and a later call "
        "with the same arguments. Distinct by SHA-1 of the descriptor.")
ASSUMPTIONS = ["memoised functions are found by scanning yastn.* modules for objects with cache_info and __wrapped__",
               "results are compared through to_dict(level=2) (public serialisation): struct, slices, hfs, mfs, trans and data bytes",
               "cache statistics and the effectiveness of set_cache_maxsize are not asserted"]

TWIN_SYMS = ['Z2', 'U1xU1', 'U1', 'Z3', 'U1xU1xZ2', 'Z2xU1']


# ---- discovery and patching of memoised functions -----------------------------------------------------------------

def find_cached():
    """{id(original lru function): {'func': f, 'aliases': [(module, name)], 'name': qualified name}}"""
    out = {}
    for mname, mod in list(sys.modules.items()):
        if not (mname == 'yastn' or mname.startswith('yastn.')) or mod is None:
            continue
        for name, obj in list(vars(mod).items()):
            f = getattr(obj, '_verif_orig', obj)
            if callable(f) and hasattr(f, 'cache_info') and hasattr(f, '__wrapped__'):
                key = f.__wrapped__.__module__ + '.' + f.__wrapped__.__qualname__
                e = out.setdefault(key, {'func': f, 'aliases': [], 'name': key})
                e['aliases'].append((mod, name))
    return out


def digest(obj):
    h = hashlib.sha1()
    _feed(h, obj)
    return h.hexdigest()


def _feed(h, obj):
    if isinstance(obj, np.ndarray):
        h.update(b'A' + str(obj.dtype).encode() + str(obj.shape).encode() + np.ascontiguousarray(obj).tobytes())
    elif isinstance(obj, dict):
        h.update(b'D')
        for k in obj:
            _feed(h, k)
            _feed(h, obj[k])
    elif isinstance(obj, (tuple, list)):
        h.update(b'T' if isinstance(obj, tuple) else b'L')
        for x in obj:
            _feed(h, x)
    elif isinstance(obj, slice):
        h.update(repr(obj).encode())
    elif isinstance(obj, (bool, float, np.floating, np.integer)) and obj == int(obj):
        h.update(repr(int(obj)).encode())      # 0.0, -0.0, False and 0 are the same key for lru_cache (== and hash agree)
    else:
        h.update(repr(obj).encode())


class Audit:
    def __init__(self):
        self.first = {}         # (fname, argkey) -> (digest, program id, epoch)
        self.problems = []
        self.calls = 0
        self.cross_hits = 0
        self.after_clear_hits = 0
        self.current = None
        self.epoch = 0
        self.wrappers = 0

    def wrap(self, entry):
        f = entry['func']
        fname = entry['name']
        audit = self

        def wrapper(*args, **kw):
            audit.calls += 1
            try:
                res = f(*args, **kw)
            except Exception:
                raise
            try:
                fresh = f.__wrapped__(*args, **kw)
            except Exception as e:   # the cached path returned but a fresh computation raises
                audit.problems.append((f'cache:{fname}:cached_value_for_failing_call', str(e)[:200]))
                return res
            dr, dfresh = digest(res), digest(fresh)
            if dr != dfresh:
                audit.problems.append((f'cache:{fname}:differs_from_recomputation',
                                       f'cached value of {fname} differs from a fresh computation with the same arguments'))
            try:
                key = (fname, digest((args, tuple(sorted(kw.items())))))
            except Exception:
                return res
            rec = audit.first.get(key)
            if rec is None:
                audit.first[key] = (dr, audit.current, audit.epoch)
            else:
                if rec[0] != dr:
                    audit.problems.append((f'cache:{fname}:changed_after_insertion',
                                           f'{fname} returns a different value than when these arguments were first seen'))
                if rec[1] != audit.current:
                    audit.cross_hits += 1
                if rec[2] != audit.epoch:
                    audit.after_clear_hits += 1
            return res
        wrapper._verif_orig = f
        wrapper.__wrapped__ = f.__wrapped__
        wrapper.cache_info = f.cache_info
        wrapper.cache_clear = f.cache_clear
        return wrapper


def install(mode, audit=None):
    """mode 'plain': undecorated functions everywhere; 'audit': audited lru functions everywhere. Returns restore()."""
    found = find_cached()
    saved = []
    for key, e in found.items():
        repl = e['func'].__wrapped__ if mode == 'plain' else audit.wrap(e)
        if mode == 'plain':
            # keep the attributes used by clear_cache/set_cache_maxsize available
            pf = e['func'].__wrapped__

            def make(pf=pf, f=e['func']):
                def plain(*a, **k):
                    return pf(*a, **k)
                plain._verif_orig = f
                plain.__wrapped__ = pf
                plain.cache_info = f.cache_info
                plain.cache_clear = f.cache_clear
                return plain
            repl = make()
        for mod, name in e['aliases']:
            saved.append((mod, name, getattr(mod, name)))
            setattr(mod, name, repl)
        if audit is not None:
            audit.wrappers += 1

    def restore():
        for mod, name, old in saved:
            setattr(mod, name, getattr(old, '_verif_orig', old))
    return restore


# ---- twin programs ------------------------------------------------------------------------------------------------

def map_charge(t, sym):
    t = int(t[0])
    return {'U1': [t], 'Z2': [t % 2], 'Z3': [t % 3], 'Z2xU1': [t % 2, 0], 'U1xU1': [t, 0], 'U1xU1xZ2': [t, 0, 0]}[sym]


def twin_of(prog, sym, ferm):
    """Re-create the U1 program under another symmetry: same block keys (computed from the U1 selection rule), same shapes."""
    import copy
    q = copy.deepcopy(prog)
    q['cfg']['sym'] = sym
    q['cfg']['fermionic'] = ferm
    for s_ in q['steps']:
        if s_['op'] == 'new':
            td = s_['td']
            td['blocks'] = [[list(t) for t in key] for key in C.allowed_blocks('U1', td['s'], td['n'], td['legs'])] \
                if not td.get('isdiag') else None
            td['n'] = map_charge(td['n'], sym) if not td.get('isdiag') else [0] * C.nsym(sym)
            for lg in td['legs']:
                lg['t'] = [map_charge(t, sym) for t in lg['t']]
            if td['blocks'] is not None:
                td['blocks'] = [[map_charge(t, sym) for t in key] for key in td['blocks']]
        elif s_['op'] == 'add_leg' and s_.get('t') is not None:
            s_['t'] = map_charge(s_['t'], sym)
        elif s_['op'] == 'apply_mask':
            s_['mask']['t'] = [map_charge(t, sym) for t in s_['mask']['t']]
    return q


def build_twin_tensor(config, td):
    """Like common.build_tensor but with an explicit list of block keys (so that twins share the block layout)."""
    if td.get('isdiag') or td.get('blocks') is None:
        return C.build_tensor(config, td)[0]
    a = yastn.Tensor(config=config, s=tuple(td['s']), n=tuple(td['n']), dtype=td.get('dtype', 'float64'))
    rng = np.random.default_rng(td.get('seed', 0))
    tD = [dict(zip(map(tuple, lg['t']), lg['D'])) for lg in td['legs']]
    cplx = td.get('dtype', 'float64').startswith('complex')
    drop = td.get('drop', 0)
    sym = config.sym.SYM_ID
    for i, key in enumerate(td['blocks']):
        key = tuple(tuple(t) for t in key)
        Ds = tuple(tD[k][t] for k, t in enumerate(key))
        val = C.int_values(rng, Ds, cplx)
        if (drop >> i) & 1:
            continue
        if C.gsum(sym, key, td['s']) != tuple(td['n']):
            continue     # not allowed under the twin's group law
        a.set_block(ts=key, Ds=Ds, val=val)
    return a


U1_POOL = [(0,), (1,)]


def draw_history(data, tier):
    from hypothesis import strategies as st
    cfg = {'sym': 'U1', 'fermionic': data.draw(st.sampled_from([False, True])), 'dtype': data.draw(st.sampled_from(['float64', 'complex128'])),
           'policy': data.draw(st.sampled_from(['fuse_to_matrix', 'fuse_contracted', 'no_fusion'])),
           'fusion': data.draw(st.sampled_from(['hard', 'meta']))}
    P._CUR_POOL.clear()
    P._CUR_POOL['U1'] = list(U1_POOL)
    w = {name: 0.0 for name in P.OPS}
    w.update({'new': 1.0, 'tensordot': 5.0, 'add': 1.5, 'trace': 1.0, 'transpose': 2.0, 'fuse': 3.0, 'unfuse': 2.0, 'vdot': 1.0,
              'swap_gate': 1.5, 'apply_mask': 1.0, 'broadcast': 0.7, 'conj': 0.5, 'linalg': 0.8, 'consume_transpose': 0.5, 'meta_to_hard': 0.3})

    wide = data.draw(st.booleans())
    twin_syms = TWIN_SYMS
    if wide:
        # programs with hard-fused legs of mismatched sector content (mask metadata): three charges, injective twins only
        from checks import c03_fusion
        P._CUR_POOL['U1'] = [(0,), (1,), (2,)]
        real_pool = P.draw_charge_pool
        P.draw_charge_pool = lambda d, sym, tier: P._CUR_POOL.__setitem__('U1', [(0,), (1,), (2,)])
        real_cfg = P.draw_cfg
        P.draw_cfg = lambda d, **kw: dict(cfg)
        try:
            prog = c03_fusion.draw_commute(data, tier)
        finally:
            P.draw_charge_pool, P.draw_cfg = real_pool, real_cfg
        # repeat the binary operation so that its metadata is requested again inside one program as well
        twin_syms = ['Z3', 'U1xU1', 'U1', 'U1xU1xZ2']
    else:
        prog = P.draw_program(data, tier, cfg=cfg, min_steps=3, max_steps=7, weights=w, live=True, klasses=['equal', 'subset', 'equal'])
    P._CUR_POOL.clear()
    ntw = data.draw(st.sampled_from([2, 2, 3]))
    twins = [{'sym': 'U1', 'fermionic': cfg['fermionic']}]
    def ferm_options(sym):
        ns = len(C.MODULI[sym])
        if sym == 'Z3':
            return [False]
        opts = [False, True]
        if ns == 2:
            opts += [[True, False], [False, True]]
        if ns == 3:
            opts += [[False, False, True], [True, True, False], [True, False, False]]
        return opts

    for k in range(ntw - 1):
        if k == 1 and len(ferm_options(twins[1]['sym'])) > 2 and P.chance(data, 1, 2):
            # the same product symmetry again with another statistics flag: layouts coincide, only `fermionic` tells the twins apart
            sym = twins[1]['sym']
            ferm = data.draw(st.sampled_from([o for o in ferm_options(sym) if o != twins[1]['fermionic']]))
        else:
            sym = data.draw(st.sampled_from(twin_syms))
            ferm = data.draw(st.sampled_from(ferm_options(sym)))
        twins.append({'sym': sym, 'fermionic': ferm})
    # interleaving: a sequence of (program index) with every program's steps in order, plus cache operations
    counts = [len(prog['steps'])] * ntw
    order = []
    left = list(counts)
    while any(left):
        i = data.draw(st.sampled_from([k for k in range(ntw) if left[k]]))
        order.append(i)
        left[i] -= 1
        if P.chance(data, 1, 6):
            order.append(data.draw(st.sampled_from(['clear', 'size0', 'size1', 'size2', 'size1024'])))
    order2 = None
    if data.draw(st.booleans()):
        order2 = [k for k in range(ntw) for _ in range(counts[k])]      # second interleaving: programs one after another
    return {'prog': prog, 'twins': twins, 'order': order, 'order2': order2}


def run_history(desc, order, mode):
    """Run the interleaved history. Returns (per-program list of step outcomes, audit)."""
    progs = [desc['prog'] if k == 0 else twin_of(desc['prog'], tw['sym'], tw['fermionic']) for k, tw in enumerate(desc['twins'])]
    if desc['twins'][0]['sym'] == 'U1':
        progs[0] = twin_of(desc['prog'], 'U1', desc['twins'][0]['fermionic'])
    configs = [C.make_config(p['cfg']) for p in progs]
    pools = [[] for _ in progs]
    pos = [0] * len(progs)
    dead = [False] * len(progs)
    outcomes = [[] for _ in progs]
    audit = Audit() if mode == 'audit' else None
    yastn.set_cache_maxsize(1024)
    yastn.clear_cache()
    restore = install(mode, audit)
    try:
        for item in order:
            if isinstance(item, str):
                if item == 'clear':
                    yastn.clear_cache()
                else:
                    yastn.set_cache_maxsize(int(item[4:]))
                    if mode == 'audit':       # set_cache_maxsize re-binds fresh lru objects: audit them again
                        restore_inner = install('audit', audit)
                if audit is not None:
                    audit.epoch += 1
                continue
            k = item
            step = progs[k]['steps'][pos[k]]
            pos[k] += 1
            if dead[k]:
                outcomes[k].append(('skipped',))
                continue
            if audit is not None:
                audit.current = k
            try:
                if step['op'] == 'new':
                    y = build_twin_tensor(configs[k], step['td'])
                else:
                    y = P.OPS[step['op']].yastn(pools[k], step, configs[k])
            except YastnError as e:
                outcomes[k].append(('YastnError',))
                dead[k] = True      # later steps may refer to the missing result
                continue
            except (IndexError, KeyError, ValueError, AssertionError, TypeError) as e:
                outcomes[k].append((type(e).__name__,))
                dead[k] = True
                continue
            ys = list(y) if isinstance(y, (tuple, list)) else [y]
            rec = []
            for yi in ys:
                if isinstance(yi, yastn.Tensor):
                    pools[k].append(yi)
                    rec.append(digest(_plain(yi.to_dict(level=2))))
                else:
                    rec.append(repr(complex(yi)))
            outcomes[k].append(tuple(rec))
    finally:
        restore()
        yastn.set_cache_maxsize(1024)
        yastn.clear_cache()
    return outcomes, audit


def _plain(d):
    """to_dict output -> comparable nested structure (config reduced to names)."""
    out = dict(d)
    cfg = out.get('config')
    if isinstance(cfg, dict):
        out['config'] = {k: (str(v) if k in ('backend', 'sym') else v) for k, v in cfg.items() if k in ('sym', 'fermionic')}
    return out


def execute_history(desc):
    ref, _ = run_history(desc, desc['order'], 'plain')
    got, audit = run_history(desc, desc['order'], 'audit')
    if audit.wrappers == 0:
        raise Reject('no_memoised_function_found')
    if audit.problems:
        key, msg = audit.problems[0]
        raise Violation(key, msg + f' (+{len(audit.problems) - 1} more)')
    for k, (r, g) in enumerate(zip(ref, got)):
        for j, (a, b) in enumerate(zip(r, g)):
            if a != b:
                st_ = desc['prog']['steps'][j]
                raise Violation(f"cache:differential:{st_['op']}",
                                f"program {k} ({desc['twins'][k]}) step {j} ({st_['op']}): outcome with caches {str(b)[:80]} differs from the "
                                f"uncached run {str(a)[:80]}")
    if desc['order2'] is not None:
        got2, audit2 = run_history(desc, desc['order2'], 'audit')
        if audit2.problems:
            raise Violation(audit2.problems[0][0], audit2.problems[0][1])
        if got2 != got:
            raise Violation('cache:order_dependence', 'two interleavings of the same programs give different results')
    labels = ['twins:' + '+'.join(sorted(t['sym'] for t in desc['twins'])), f'cross_hits:{min(audit.cross_hits, 5)}']
    if any(isinstance(o, str) for o in desc['order']):
        labels.append('cache_ops')
    nt = audit.cross_hits > 0 or audit.after_clear_hits > 0
    return Res(labels=labels, nontrivial=nt, extra={'calls': audit.calls})


def parts(tier):
    return [HypPart('histories', draw_history, execute_history, {'quick': 5000, 'thorough': 25000})]
