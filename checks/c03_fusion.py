"""C03 - Leg fusion is a faithful, reversible change of basis.

Part 'roundtrip'   : a tensor, a fusion plan of 1-3 nested layers (hard / meta / mixtures), then complete unfusion:
                     dense values equal the permuted original exactly, the multiset of stored non-zero values and the
                     norm are unchanged by every fuse / unfuse step.
Part 'commute'     : two operands whose to-be-fused legs have equal / overlapping / disjoint sector sets are fused
                     identically and then contracted / added / traced / vdot-ed over the fused legs; the result (after
                     unfusing what remains) equals the operation over the original legs (dense model, exact).
Part 'incompatible': operands fused incompatibly on the matched legs (different tree shape, meta vs hard, different leaf
                     signature pattern, different size for the same sub-charge) must be rejected with YastnError.
Part 'block'       : block identities - norm^2 additivity, block-in-steps == block-at-once, contraction over a blocked
                     axis equals the sum of part-wise contractions, unfuse_legs refuses blocked legs.
"""
import itertools

import numpy as np

from vlib import program as P
from vlib import common as C
from vlib.common import yastn, YastnError
from vlib.model import ELeg, leaves, depth, model_from_desc, observe, ObserveError, embed_axis
from vlib.runner import HypPart, Res, Violation, Reject

ID = 'C03'
RULE = ("One case = one tensor with a generated fusion plan (roundtrip), one operand pair with generated sector mismatch and a "
        "binary operation over fused legs (commute), one incompatible pair (incompatible) or one block plan (block). "
        "Non-trivial: fusion depth >= 2, or mismatched sector content (class != equal) on a fused leg, or a block with >= 3 parts, "
        "or an incompatible pair that differs in exactly one respect. Distinct by SHA-1 of the descriptor.")
ASSUMPTIONS = ["integer block data: all comparisons exact", "dense model of vlib/model.py", "NumPy backend"]


# ---- roundtrip ----------------------------------------------------------------------------------------------

RT_WEIGHTS = {name: 0.0 for name in P.OPS}
RT_WEIGHTS.update({'fuse': 6.0, 'unfuse': 2.5, 'transpose': 1.0, 'meta_to_hard': 0.7, 'consume_transpose': 0.5, 'conj': 0.3,
                   'copy': 0.2})


def draw_roundtrip(data, tier):
    from hypothesis import strategies as st
    cfg = P.draw_cfg(data)
    P._CUR_POOL.clear()
    if not P.chance(data, 1, 6):
        P.draw_charge_pool(data, cfg['sym'], tier)
    rank = data.draw(st.sampled_from([3, 4, 2, 5, 4, 3] if tier == 'quick' else [3, 4, 5, 6, 2, 4]))
    td = P.draw_tensor_desc(data, cfg, tier, rank=rank, max_rank=6)
    perm, trees = P.draw_tree_plan(data, rank)
    state = P.State(cfg, with_data=False)
    P.draw_apply(state, {'op': 'new', 'td': td})
    for s_ in P.plan_steps(perm, trees):
        P.draw_apply(state, s_)
    # then undo: random mixture of unfuse / transpose / meta_to_hard until nothing is fused (bounded)
    for _ in range(6):
        m = state.pool[-1]
        if not m.any_fused():
            break
        name = data.draw(st.sampled_from(['unfuse', 'unfuse', 'transpose', 'meta_to_hard', 'unfuse', 'consume_transpose']))
        try:
            step = P.OPS[name].draw(state, data, tier)
            step['x'] = len(state.pool) - 1
            if name == 'unfuse':
                fused = [i for i in range(m.ndim) if not m.is_leaf(i)]
                step['axes'] = sorted(data.draw(st.permutations(fused))[:data.draw(st.integers(1, len(fused)))])
                step['int'] = False
            elif name == 'transpose':
                step['axes'] = list(data.draw(st.permutations(list(range(m.ndim)))))
            P.draw_apply(state, step)
        except P.Skip:
            continue
    return {'cfg': cfg, 'steps': state.steps}


def _values_multiset(y):
    d = np.asarray(y.data)
    d = d[d != 0]
    return sorted(map(complex, d.tolist()), key=lambda z: (z.real, z.imag))


def execute_roundtrip(desc):
    stats = {'maxdepth': 0, 'fuses': 0}
    ref = {}

    def on_step(k, step, y, m, yp, state):
        if not hasattr(y, 'norm'):
            return
        stats['maxdepth'] = max([stats['maxdepth']] + [depth(n) for n in m.tree])
        if step['op'] in ('fuse', 'unfuse', 'meta_to_hard', 'transpose', 'consume_transpose', 'copy'):
            x = yp[step['x']]
            if _values_multiset(x) != _values_multiset(y):
                raise P.StepFail('values_multiset', 'the multiset of stored non-zero values changed', k, step)
            if x.norm() != y.norm() and abs(x.norm() - y.norm()) > 1e-13 * max(1.0, x.norm()):
                raise P.StepFail('norm', f'norm changed from {x.norm()} to {y.norm()}', k, step)
            if step['op'] == 'fuse':
                stats['fuses'] += 1

    try:
        state, yp, info = P.execute_program(desc, on_step=on_step, observers=False)
        # final complete unfusion of the last tensor must reproduce the model (observe() does exactly that) -- done per step
    except P.StepFail as e:
        raise Violation(f"roundtrip:{e.clause}:{e.step['op']}", str(e))
    labs = P.program_labels(desc, state)
    labs.add(f"depth:{stats['maxdepth']}")
    return Res(labels=sorted(labs), nontrivial=stats['maxdepth'] >= 2)


# ---- commute ------------------------------------------------------------------------------------------------

CM_WEIGHTS = {name: 0.0 for name in P.OPS}
CM_WEIGHTS.update({'fuse': 5.0, 'tensordot': 4.0, 'add': 2.0, 'vdot': 1.5, 'trace': 1.5, 'transpose': 0.7, 'unfuse': 0.7,
                   'meta_to_hard': 0.3})
MISMATCH = ['equal', 'subset', 'superset', 'overlap', 'overlap', 'disjoint', 'overlap', 'subset']


def draw_commute(data, tier):
    from hypothesis import strategies as st
    cfg = P.draw_cfg(data)
    P._CUR_POOL.clear()
    if not P.chance(data, 1, 6):
        P.draw_charge_pool(data, cfg['sym'], tier)
    rank = data.draw(st.sampled_from([3, 4, 2, 4, 3]))
    td = P.draw_tensor_desc(data, cfg, tier, rank=rank)
    perm, trees = P.draw_tree_plan(data, rank)
    state = P.State(cfg, with_data=False)
    P.draw_apply(state, {'op': 'new', 'td': td})
    for s_ in P.plan_steps(perm, trees):
        P.draw_apply(state, s_)
    x = len(state.pool) - 1
    a = state.pool[x]
    klass = data.draw(st.sampled_from(MISMATCH))
    opn = data.draw(st.sampled_from(['tensordot', 'tensordot', 'add', 'vdot', 'trace']))
    try:
        if opn == 'tensordot':
            conj = (int(P.chance(data, 1, 4)), int(P.chance(data, 1, 4)))
            steps, ia, ib = P.emit_dot_partner(state, data, tier, x, klass, conj)
            for s_ in steps:
                P.draw_apply(state, s_)
            y = len(state.pool) - 1
            if P.chance(data, 1, 3):     # pending transposes on the fused operands
                pa = list(data.draw(st.permutations(list(range(state.pool[x].ndim)))))
                pb = list(data.draw(st.permutations(list(range(state.pool[y].ndim)))))
                P.draw_apply(state, {'op': 'transpose', 'x': x, 'axes': pa})
                P.draw_apply(state, {'op': 'transpose', 'x': y, 'axes': pb})
                x, y = len(state.pool) - 2, len(state.pool) - 1
                ia, ib = [pa.index(i) for i in ia], [pb.index(i) for i in ib]
            P.draw_apply(state, {'op': 'tensordot', 'x': x, 'y': y, 'axes': [ia, ib], 'conj': list(conj), 'form': 'tuple', 'klass': klass})
        elif opn == 'add':
            for s_ in P.emit_add_partner(state, data, tier, x, klass):
                P.draw_apply(state, s_)
            y = len(state.pool) - 1
            if P.chance(data, 1, 2) and state.pool[x].ndim >= 2:     # the same pending transpose on both fused operands
                pa = list(data.draw(st.permutations(list(range(state.pool[x].ndim)))))
                P.draw_apply(state, {'op': 'transpose', 'x': x, 'axes': pa})
                P.draw_apply(state, {'op': 'transpose', 'x': y, 'axes': pa})
                x, y = len(state.pool) - 2, len(state.pool) - 1
            f = data.draw(st.sampled_from(['add', 'sub', 'addn', 'addn']))
            step = {'op': 'add', 'x': x, 'y': y, 'f': f, 'klass': klass}
            if f == 'addn':
                # sums of 3-4 operands in which the differently structured operand takes any position (x + y + x, y + x + x + y, ...)
                step['ys'] = list(data.draw(st.permutations([y] + data.draw(st.lists(st.sampled_from([x, y]), min_size=1, max_size=2)))))
                step['amps'] = None
                if data.draw(st.booleans()):
                    step['x'], step['y'] = y, x
                    step['ys'] = [x if j == y else y for j in step['ys']]
            P.draw_apply(state, step)
        elif opn == 'vdot':
            A = a.conj()
            legs = [ELeg(-l.s, P.perturb_table(data, state.sym, tier, l.tD, klass)) for l in A.legs]
            for s_ in P.emit_new_like(state, data, tier, A.tree, legs, n=C.gneg(state.sym, A.n)):
                P.draw_apply(state, s_)
            y = len(state.pool) - 1
            if P.chance(data, 1, 2) and state.pool[x].ndim >= 2:
                pa = list(data.draw(st.permutations(list(range(state.pool[x].ndim)))))
                P.draw_apply(state, {'op': 'transpose', 'x': x, 'axes': pa})
                P.draw_apply(state, {'op': 'transpose', 'x': y, 'axes': pa})
                x, y = len(state.pool) - 2, len(state.pool) - 1
            P.draw_apply(state, {'op': 'vdot', 'x': x, 'y': y, 'conj': [1, 0], 'klass': klass})
        else:
            steps, axes = P.emit_trace_ready(state, data, tier, klass)
            for s_ in steps:
                P.draw_apply(state, s_)
            P.draw_apply(state, {'op': 'trace', 'x': len(state.pool) - 1, 'axes': axes, 'klass': klass})
    except P.Skip:
        pass
    # optionally unfuse what remains
    m = state.pool[-1]
    if m.any_fused() and data.draw(st.booleans()):
        fused = [i for i in range(m.ndim) if not m.is_leaf(i)]
        P.draw_apply(state, {'op': 'unfuse', 'x': len(state.pool) - 1, 'axes': fused, 'int': False})
    return {'cfg': cfg, 'steps': state.steps}


def execute_commute(desc):
    stats = {'fused_binary': 0, 'mismatch_fused': 0, 'maxdepth': 0}

    def on_step(k, step, y, m, yp, state):
        if step['op'] in ('tensordot', 'add', 'vdot', 'trace'):
            ops_ = [state.pool[step[key]] for key in ('x', 'y') if key in step]
            if any(t.any_fused() for t in ops_):
                stats['fused_binary'] += 1
                stats['maxdepth'] = max([stats['maxdepth']] + [depth(n) for t in ops_ for n in t.tree])
                if step.get('klass', 'equal') != 'equal':
                    stats['mismatch_fused'] += 1

    try:
        state, yp, info = P.execute_program(desc, on_step=on_step, observers=False)
    except P.StepFail as e:
        raise Violation(f"commute:{e.clause}:{e.step['op']}", str(e))
    labs = P.program_labels(desc, state)
    if stats['fused_binary']:
        labs.add('binary_over_fused')
    if stats['mismatch_fused']:
        labs.add('mismatch_over_fused')
    return Res(labels=sorted(labs), nontrivial=stats['mismatch_fused'] > 0 or (stats['fused_binary'] > 0 and stats['maxdepth'] >= 2))


# ---- incompatible -------------------------------------------------------------------------------------------

def draw_incompatible(data, tier):
    """a has a fused leg over leaves (l1, l2[, l3]); b is built to be contractible/addable except for one defect."""
    from hypothesis import strategies as st
    cfg = P.draw_cfg(data, syms=[s for s in C.SYMS if s != 'dense'])
    sym = cfg['sym']
    P._CUR_POOL.clear()
    P.draw_charge_pool(data, sym, tier)
    k = data.draw(st.sampled_from([2, 3, 2]))
    tabs = [P.draw_table(data, sym, tier, max_sectors=2, maxD=2) for _ in range(k + 1)]
    sigs = [data.draw(st.sampled_from([1, -1])) for _ in range(k + 1)]
    kind = data.draw(st.sampled_from(['shape', 'mode', 'signature', 'size', 'compatible'] if k == 3 else
                                     ['mode', 'signature', 'size', 'compatible', 'nfused']))
    opn = data.draw(st.sampled_from(['tensordot', 'add', 'vdot']))
    mode_a = data.draw(st.sampled_from(['hard', 'meta']))
    nested = k == 3 and data.draw(st.booleans())
    pick = [list(data.draw(st.sampled_from(tb['t']))) for tb in tabs]
    return {'cfg': cfg, 'tabs': tabs, 'sigs': sigs, 'kind': kind, 'op': opn, 'mode': mode_a, 'nested': nested, 'pick': pick,
            'seeds': [data.draw(st.integers(0, 9999)), data.draw(st.integers(0, 9999))]}


def _fuse_first(t, k, mode, nested, variant=None):
    """Fuse the first k legs of t into one leg (optionally nested ((0,1),2)); variant changes the tree."""
    if k == 3 and nested:
        t = t.fuse_legs(axes=((0, 1), 2, 3), mode=mode)
        return t.fuse_legs(axes=((0, 1), 2), mode=mode)
    return t.fuse_legs(axes=(tuple(range(k)), k), mode=mode)


def execute_incompatible(desc):
    cfg = desc['cfg']
    config = C.make_config(cfg)
    sym = cfg['sym']
    k = len(desc['tabs']) - 1
    legs_a = [yastn.Leg(config, s=s, t=[tuple(t) for t in tb['t']], D=tb['D']) for s, tb in zip(desc['sigs'], desc['tabs'])]
    C.reseed_backend(desc['seeds'][0])
    na = C.gsum(sym, [tuple(t) for t in desc['pick']], desc['sigs'])
    a = yastn.rand(config, legs=legs_a, n=na)
    kind, opn = desc['kind'], desc['op']
    sgn = 1 if opn == 'add' else -1      # add: same signatures; contraction / vdot(conj=(0,0)): opposite
    legs_b = [l if sgn == 1 else l.conj() for l in legs_a]
    mode_b, nested_b, kb = desc['mode'], desc['nested'], k
    if kind == 'signature':
        legs_b[1] = legs_b[1].conj()
    elif kind == 'size':
        l = legs_b[0]
        legs_b[0] = yastn.Leg(config, s=l.s, t=l.t, D=tuple(d + 1 for d in l.D))
    elif kind == 'mode':
        mode_b = 'meta' if desc['mode'] == 'hard' else 'hard'
    elif kind == 'shape':
        nested_b = not desc['nested']
    C.reseed_backend(desc['seeds'][1])
    b = yastn.rand(config, legs=legs_b, n=C.gsum(sym, [tuple(t) for t in desc['pick']], [l.s for l in legs_b]))
    if len(a.get_blocks_charge()) == 0 or len(b.get_blocks_charge()) == 0:
        raise Reject('empty_operand')
    af = _fuse_first(a, k, desc['mode'], desc['nested'])
    if kind == 'nfused':   # b fuses only part of the legs: ranks of the matched legs differ
        bf = b.fuse_legs(axes=(0, 1, 2) if k == 2 else ((0, 1), 2, 3), mode=mode_b)
    else:
        bf = _fuse_first(b, k, mode_b, nested_b)
    expect_error = kind != 'compatible'
    try:
        if opn == 'tensordot':
            r = yastn.tensordot(af, bf, axes=(0, 0))
        elif opn == 'add':
            r = af + bf
        else:
            r = yastn.vdot(af, bf, conj=(0, 0))
        raised = False
    except YastnError:
        raised = True
    labels = ['kind:' + kind, 'op:' + opn, 'mode:' + desc['mode'], 'sym:' + sym]
    if kind == 'nfused' and opn != 'tensordot':
        expect_error = True
    if kind == 'mode' and cfg.get('force'):
        expect_error = False
    if expect_error and not raised:
        raise Violation(f'incompatible:{kind}:{opn}:computed_a_value', f'{opn} over legs fused incompatibly ({kind}) returned a result')
    if not expect_error and raised:
        raise Violation(f'incompatible:{kind}:{opn}:rejected_compatible', f'{opn} over identically fused legs raised YastnError')
    return Res(labels=labels, nontrivial=True)


# ---- block --------------------------------------------------------------------------------------------------

def draw_block(data, tier):
    from hypothesis import strategies as st
    cfg = P.draw_cfg(data)
    sym = cfg['sym']
    P._CUR_POOL.clear()
    P.draw_charge_pool(data, sym, tier)
    rank = data.draw(st.sampled_from([2, 3, 3, 4]))
    fuse = rank >= 3 and data.draw(st.booleans())     # hard-fuse the last two (common) legs of every part before blocking
    nb = data.draw(st.sampled_from([1, 2, 1])) if rank >= 2 else 1
    if fuse:
        nb = min(nb, rank - 2)
    baxes = sorted(data.draw(st.permutations(list(range(rank - 2 if fuse else rank))))[:nb])
    nparts = data.draw(st.sampled_from([2, 3, 4, 2, 3]))
    sigs = [data.draw(st.sampled_from([1, -1])) for _ in range(rank)]
    common_tabs = {i: P.draw_table(data, sym, tier, max_sectors=3, maxD=2) for i in range(rank) if i not in baxes}
    coords = list(itertools.product(range(nparts), repeat=nb))
    pos = [list(p) for p in data.draw(st.permutations(coords))[:nparts]]
    # tables on blocked axes are per coordinate value (tensors sharing a coordinate share that leg)
    btabs = {(ai, c): P.draw_table(data, sym, tier, max_sectors=2, maxD=2) for ai in range(nb) for c in sorted({p[ai] for p in pos})}
    # a common total charge: pick from the first part
    legs0 = [common_tabs[i] if i in common_tabs else btabs[(baxes.index(i), pos[0][baxes.index(i)])] for i in range(rank)]
    n = C.gsum(sym, [tuple(data.draw(st.sampled_from(lg['t']))) for lg in legs0], sigs)
    parts = []
    klass = data.draw(st.sampled_from(['equal', 'subset', 'subset']))   # every part takes a sub-table of one master table
    for p in pos:
        legs = [common_tabs[i] if i in common_tabs else btabs[(baxes.index(i), p[baxes.index(i)])] for i in range(rank)]
        if klass != 'equal':   # parts differ in the sector content of their common legs (block must take the union)
            legs = [lg if i in baxes else ELeg(1, P.perturb_table(data, sym, tier, dict(zip(map(tuple, lg['t']), lg['D'])), klass)).to_json()
                    for i, lg in enumerate(legs)]
            legs = [{'t': lg['t'], 'D': lg['D']} for lg in legs]
        parts.append({'s': sigs, 'n': list(n), 'legs': legs, 'seed': data.draw(st.integers(0, 99999)), 'dtype': cfg['dtype'], 'drop': 0})
    return {'cfg': cfg, 'parts': parts, 'pos': pos, 'baxes': baxes, 'rank': rank, 'fuse': fuse, 'klass': klass,
            'split': data.draw(st.integers(1, nparts - 1)) if nparts >= 3 and nb == 1 else 0}


def execute_block(desc):
    cfg = desc['cfg']
    config = C.make_config(cfg)
    sym = cfg['sym']
    rank, baxes = desc['rank'], desc['baxes']
    common = tuple(i for i in range(rank) if i not in baxes)
    ts = [C.build_tensor(config, td)[0] for td in desc['parts']]
    if all(len(t.get_blocks_charge()) == 0 for t in ts):
        raise Reject('all_parts_empty')
    if desc.get('fuse'):
        ts = [t.fuse_legs(axes=tuple(range(rank - 2)) + ((rank - 2, rank - 1),), mode='hard') for t in ts]
        rank = rank - 1
        common = tuple(i for i in range(rank) if i not in baxes)
    key = lambda p: tuple(p) if len(p) > 1 else p[0]
    tens = {key(p): t for p, t in zip(desc['pos'], ts)}
    try:
        B = yastn.block(tens, common_legs=common if common else None)
    except YastnError as e:
        raise Violation('block:unexpected_YastnError', str(e))
    from vlib.validate import validate_tensor
    r = validate_tensor(B)
    if r:
        raise Violation('block:wellformed_' + r[0], r[1])
    # (f1) norm^2 additivity (integer data: exact up to one rounding of sqrt)
    sq = lambda x: float(np.sum(np.real(x) ** 2 + np.imag(x) ** 2))
    n2 = sum(sq(np.asarray(t.data)) for t in ts)
    b2 = sq(np.asarray(B.data))
    if n2 != b2:
        raise Violation('block:norm', f'|block|^2 = {b2} but sum of |parts|^2 = {n2}')
    if tuple(B.n) != tuple(ts[0].n) or tuple(B.s) != tuple(ts[0].s):
        raise Violation('block:charge_signature', f'n={B.n} s={B.s}')
    # (f2) legs on blocked axes carry 's' histories that unfuse_legs refuses; common legs are plain unions
    for i in range(rank):
        h = B.get_legs(i).history()
        ncoord = len({p[baxes.index(i)] for p in desc['pos']}) if i in baxes else 0
        if i in baxes and ncoord > 1:
            if h[0] != 's':
                raise Violation('block:history', f'blocked leg {i} has history {h}')
            try:
                B.unfuse_legs(axes=i)
                raise Violation('block:unfuse_accepted', 'unfuse_legs accepted a leg produced by block()')
            except YastnError:
                pass
    # (f3) contraction over everything with the conjugate equals sum of part-wise vdot = n2 ; and over blocked axis
    v = yastn.vdot(B, B)
    if complex(v) != complex(n2):
        raise Violation('block:vdot', f'vdot(block, block) = {v}, expected {n2}')
    # (f4) contracting two blocked tensors over ALL blocked axes equals the sum of part-wise contractions
    if common:
        G = yastn.tensordot(B, B, axes=(tuple(baxes), tuple(baxes)), conj=(0, 1))
        acc = None
        groups = {}
        for p, t in zip(desc['pos'], ts):
            term = yastn.tensordot(t, t, axes=(tuple(baxes), tuple(baxes)), conj=(0, 1))
            acc = term if acc is None else acc + term
        # cross terms between different positions vanish only if positions differ on a blocked axis: they do (distinct coords)
        lg = dict(enumerate(yastn.legs_union(x, y) for x, y in zip(G.get_legs(), acc.get_legs())))
        if not np.array_equal(G.to_numpy(legs=lg), acc.to_numpy(legs=lg)):
            raise Violation('block:contraction', 'contraction over blocked axes differs from the sum of part-wise contractions')
    # (f5) block in two steps == block at once (single blocked axis)
    if desc['split'] and len(baxes) == 1:
        order = sorted(range(len(ts)), key=lambda i: desc['pos'][i][0])
        k = desc['split']
        first = {desc['pos'][i][0]: ts[i] for i in order[:k]}
        second = {desc['pos'][i][0]: ts[i] for i in order[k:]}
        try:
            B1 = yastn.block(first, common_legs=common if common else None) if len(first) > 1 else next(iter(first.values()))
            B2 = yastn.block(second, common_legs=common if common else None) if len(second) > 1 else next(iter(second.values()))
            B12 = yastn.block({0: B1, 1: B2}, common_legs=common if common else None)
        except YastnError as e:
            raise Violation('block:steps_YastnError', str(e))
        if B12.get_legs() != B.get_legs() or not np.array_equal(B12.to_numpy(), B.to_numpy()):
            raise Violation('block:steps_vs_once', 'blocking in two steps differs from blocking at once')
    labels = ['sym:' + sym, f'parts:{len(ts)}', f'baxes:{len(baxes)}', 'klass:' + desc.get('klass', 'equal')] + \
        (['two_steps'] if desc['split'] else []) + (['fused_common'] if desc.get('fuse') else [])
    return Res(labels=labels, nontrivial=len(ts) >= 3)


def parts(tier):
    return [HypPart('roundtrip', draw_roundtrip, execute_roundtrip, {'quick': 2500, 'thorough': 60000}),
            HypPart('commute', draw_commute, execute_commute, {'quick': 3000, 'thorough': 60000}),
            HypPart('incompatible', draw_incompatible, execute_incompatible, {'quick': 800, 'thorough': 10000}),
            HypPart('block', draw_block, execute_block, {'quick': 1200, 'thorough': 20000})]
