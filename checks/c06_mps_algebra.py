"""C06 - MPS/MPO algebra agrees with the states and operators it represents.

One case = an expression tree (depth <= 3) over generated MPS / MPO leaves (random, product, from tensor; every operator
family x symmetry; N = 1..6; admissible total charges; non-unit factors) with nodes add (amplitudes incl. 0, negative,
complex), scalar multiplication / division / negation, MPO@MPS, MPO@MPO (both fusion modes), conj, transpose, conjugate
transpose, reverse_sites, copies. The tree is evaluated by yastn and by NumPy on the dense leaves; overlaps, <a|O|b> (single
MPO, list = sum of MPOs, periodic MPO), vdot dispatch, to_tensor / to_matrix, zipper and variational compression without
truncation are compared with the dense objects.
"""
import numpy as np

from vlib import common as C
from vlib import mpsgen as G
from vlib.common import yastn, YastnError
from vlib.runner import HypPart, Res, Violation, Reject
import yastn.tn.mps as mps

ID = 'C06'
RULE = ("One case = one expression tree + measurements. Non-trivial: N >= 2 and the tree has >= 2 different node kinds, or "
        "N in (1, 2), or a non-zero total charge, or a complex / negative / zero amplitude. Distinct by SHA-1 of the descriptor.")
ASSUMPTIONS = ["dense reference: NumPy contraction of the site tensors (vlib/mpsgen.py) in the Kronecker basis",
               "relative tolerance 1e-10 of the norms involved", "states of equal total charge are added, as every caller does",
               "compression_ is compared only when it reports convergence"]

TOL = 1e-10
SC = [2, -1, 0.5, -3, 0, {'re': 0, 'im': 1}, {'re': 1, 'im': -2}, 1.5]


def cx(v):
    return C.cplx(v)


# ---- tree drawing -------------------------------------------------------------------------------------------------------

def draw_tree(d, fam, N, tier, kind, n, depth):
    """kind: 'mps' or 'mpo'; n: total charge (MPS). Returns a JSON tree."""
    from hypothesis import strategies as st
    if depth == 0 or d.draw(st.integers(0, 3)) == 0:
        if kind == 'mps':
            return {'op': 'leaf', 'kind': 'mps', 'desc': G.draw_state_desc(d, fam, N, tier, n=n,
                                                                           kinds=('random', 'random', 'product', 'from_tensor', 'product_cyclic') if N <= 4 else ('random', 'product', 'product_cyclic'))}
        return {'op': 'leaf', 'kind': 'mpo', 'desc': G.draw_mpo_desc(d, fam, N, tier)}
    opts = ['add', 'scal', 'copy', 'matmul', 'add', 'scal']
    # conj() flips the signatures of the virtual legs as well, so conjugated and plain objects cannot be added or measured
    # together (YastnError): conjugations appear in signature-neutral pairs inside a tree and singly only at the top level
    if kind == 'mpo':
        opts += ['TT', 'HcT', 'HH', 'reverse2', 'conj2']     # transposition changes the physical signatures too: pairs only
    else:
        opts += ['reverse2', 'conj2']
    o = d.draw(st.sampled_from(opts))
    if o == 'add':
        k = d.draw(st.sampled_from([2, 2, 3, 4]))
        return {'op': 'add', 'how': d.draw(st.sampled_from(['add', 'plus', 'minus'])) if k == 2 else 'add',
                'args': [draw_tree(d, fam, N, tier, kind, n, depth - 1) for _ in range(k)],
                'amps': None if d.draw(st.integers(0, 3)) == 0 else [d.draw(st.sampled_from(SC)) for _ in range(k)]}
    if o == 'scal':
        return {'op': 'scal', 'how': d.draw(st.sampled_from(['mul', 'rmul', 'div', 'neg', 'npmul'])),
                'c': d.draw(st.sampled_from([c for c in SC if c != 0])), 'arg': draw_tree(d, fam, N, tier, kind, n, depth - 1)}
    if o == 'copy':
        return {'op': 'copy', 'how': d.draw(st.sampled_from(['copy', 'clone', 'shallow_copy'])), 'arg': draw_tree(d, fam, N, tier, kind, n, depth - 1)}
    if o == 'matmul':
        return {'op': 'matmul', 'how': d.draw(st.sampled_from(['@', 'multiply', 'multiply_hard'])),
                'a': draw_tree(d, fam, N, tier, 'mpo', None, depth - 1), 'b': draw_tree(d, fam, N, tier, kind, n, depth - 1)}
    if o in ('TT', 'HcT', 'HH'):
        return {'op': o, 'how': d.draw(st.sampled_from(['method', 'property'])), 'arg': draw_tree(d, fam, N, tier, kind, n, depth - 1)}
    if o == 'reverse2':     # reverse_sites twice is the identity; once is checked at the top level
        return {'op': 'reverse2', 'arg': draw_tree(d, fam, N, tier, kind, n, depth - 1)}
    return {'op': 'conj2', 'arg': draw_tree(d, fam, N, tier, kind, n, depth - 1)}


def draw_case(data, tier):
    from hypothesis import strategies as st
    fam = G.draw_family(data, tier)
    ops, sp, named = G.family(fam)
    maxN = 6 if tier == 'quick' else 7
    if sp.d >= 4:
        maxN = 4 if tier == 'quick' else 5
    elif sp.d == 3:
        maxN = 5
    N = data.draw(st.sampled_from([n for n in [2, 3, 4, 1, 5, 6, 7, 3] if n <= maxN]))
    kind = data.draw(st.sampled_from(['mps', 'mps', 'mpo']))
    adm = G.admissible_charges(sp, N)
    n = list(data.draw(st.sampled_from(adm))) if kind == 'mps' else None
    tree = draw_tree(data, fam, N, tier, kind, n, depth=2 if tier == 'quick' else 3)
    case = {'fam': fam, 'N': N, 'kind': kind, 'n': n, 'tree': tree,
            'top': data.draw(st.sampled_from(['none', 'reverse_sites', 'conj', 'none', 'H'])),
            'cfg': {'tensordot_policy': data.draw(st.sampled_from(['fuse_to_matrix', 'fuse_contracted', 'no_fusion'])),
                    'default_fusion': 'hard'}}     # the MPS layer does not support default_fusion='meta' (eye() rejects meta legs)
    # measurement partners
    if kind == 'mps':
        case['other'] = G.draw_state_desc(data, fam, N, tier, n=n, kinds=('random', 'product'))
        case['mpos'] = [G.draw_mpo_desc(data, fam, N, tier) for _ in range(data.draw(st.sampled_from([1, 2, 3])))]
        case['pbc_shift'] = data.draw(st.integers(0, N - 1))
        case['zipper'] = data.draw(st.booleans())
        case['compress'] = data.draw(st.sampled_from([None, None, '1site', '2site']))
    return case


# ---- evaluation ---------------------------------------------------------------------------------------------------------

def JWkron(vs):
    out = np.ones(1)
    for v_ in vs:
        out = np.kron(out, v_)
    return out


_SCALES = []     # norms of the operands met while evaluating a tree (errors are relative to them: a sum may cancel exactly)


def ev(tree, fam, N, sp, extra):
    """Evaluate a tree: returns (yastn object, dense array, set of node kinds)."""
    o = tree['op']
    if o == 'leaf':
        obj = G.build_state(tree['desc'], fam, N, extra) if tree['kind'] == 'mps' else G.build_mpo(tree['desc'], fam, N, extra)
        if obj is None:
            raise Reject('zero_random_state')
        dn = G.mps_dense(obj, sp)
        if tree['kind'] == 'mps' and tree['desc']['kind'] in ('product', 'product_cyclic'):
            # product states: the Kronecker product of the local basis vectors (the list repeated cyclically when shorter than the chain)
            occ = tree['desc']['occ']
            ref = JWkron([np.eye(sp.d)[:, occ[j % len(occ)]] for j in range(N)])
            ref = ref * tree['desc'].get('factor', 1) * (1j if tree['desc']['dtype'] == 'complex128' else 1)
            if dn.shape != ref.shape or np.linalg.norm(dn - ref) > 1e-12 * max(1.0, np.linalg.norm(ref)):
                raise Violation('leaf:product_state', f"product_mps of occupations {occ} (N = {N}) is not the Kronecker product of the local vectors")
        _SCALES.append(float(np.linalg.norm(dn)))
        return obj, dn, {'leaf:' + tree['desc']['kind']}
    if o == 'add':
        parts = [ev(t, fam, N, sp, extra) for t in tree['args']]
        amps = None if tree['amps'] is None else [cx(a) for a in tree['amps']]
        objs = [p[0] for p in parts]
        _SCALES.append(float(sum((1 if amps is None else abs(amps[j])) * np.linalg.norm(p[1]) for j, p in enumerate(parts))))
        if tree['how'] == 'plus' and amps is None:
            y = objs[0] + objs[1]
            dn = parts[0][1] + parts[1][1]
        elif tree['how'] == 'minus' and amps is None:
            y = objs[0] - objs[1]
            dn = parts[0][1] - parts[1][1]
        else:
            y = mps.add(*objs, amplitudes=amps)
            dn = sum((1 if amps is None else amps[j]) * p[1] for j, p in enumerate(parts))
        return y, dn, set.union(*(p[2] for p in parts)) | {'add'}
    if o == 'scal':
        y, dn, k = ev(tree['arg'], fam, N, sp, extra)
        c = cx(tree['c'])
        how = tree['how']
        if how == 'mul':
            return y * c, dn * c, k | {'scal'}
        if how == 'rmul':
            return c * y, dn * c, k | {'scal'}
        if how == 'npmul':
            c = abs(c) if isinstance(c, complex) else c
            return np.float64(c) * y, dn * c, k | {'scal'}
        if how == 'div':
            return y / c, dn / c, k | {'scal'}
        return -y, -dn, k | {'scal'}
    if o == 'copy':
        y, dn, k = ev(tree['arg'], fam, N, sp, extra)
        return getattr(y, tree['how'])(), dn, k | {'copy'}
    if o == 'matmul':
        a, da, ka = ev(tree['a'], fam, N, sp, extra)
        b, db, kb = ev(tree['b'], fam, N, sp, extra)
        how = tree['how']
        if how == '@':
            y = a @ b
        elif how == 'multiply':
            y = mps.multiply(a, b)
        else:
            y = mps.multiply(a, b, mode=how.split('_')[1])
        _SCALES.append(float(np.linalg.norm(da) * np.linalg.norm(db)))
        return y, da @ db, ka | kb | {'matmul'}
    if o == 'TT':
        y, dn, k = ev(tree['arg'], fam, N, sp, extra)
        return (y.transpose().transpose() if tree['how'] == 'method' else y.T.T), dn, k | {'TT'}
    if o == 'HcT':       # ((x^dagger)^*)^T = x
        y, dn, k = ev(tree['arg'], fam, N, sp, extra)
        return (y.conjugate_transpose() if tree['how'] == 'method' else y.H).conj().T, dn, k | {'HcT'}
    if o == 'HH':
        y, dn, k = ev(tree['arg'], fam, N, sp, extra)
        return (y.conjugate_transpose().conjugate_transpose() if tree['how'] == 'method' else y.H.H), dn, k | {'HH'}
    if o == 'reverse2':
        y, dn, k = ev(tree['arg'], fam, N, sp, extra)
        return y.reverse_sites().reverse_sites(), dn, k | {'reverse2'}
    if o == 'conj2':
        y, dn, k = ev(tree['arg'], fam, N, sp, extra)
        return y.conj().conj(), dn, k | {'conj2'}
    raise ValueError(o)


def rev_dense(dn, d, N, is_mpo):
    if not is_mpo:
        return dn.reshape((d,) * N).transpose(list(range(N))[::-1]).reshape(-1)
    T = dn.reshape((d,) * (2 * N))
    ax = list(range(N))[::-1] + [N + k for k in range(N)][::-1]
    return T.transpose(ax).reshape(d ** N, d ** N)


def relerr(got, exp):
    sc = max(1e-300, np.linalg.norm(exp), np.linalg.norm(got))
    return float(np.linalg.norm(got - exp)) / sc if sc > 1e-200 else 0.0


def check_close(key, got, exp, scale=None, tol=TOL):
    got, exp = np.asarray(got), np.asarray(exp)
    sc = scale if scale is not None else max(np.linalg.norm(exp), np.linalg.norm(got), 1e-300)
    err = float(np.linalg.norm(got - exp))
    if not err <= tol * max(sc, 1e-290):
        raise Violation(key, f'deviation {err:.3e} at scale {sc:.3e}')


def execute(case):
    fam, N = case['fam'], case['N']
    extra = case.get('cfg') or {}
    ops, sp, named = G.family(fam, **extra)
    try:
        _SCALES.clear()
        y, dn, kinds = ev(case['tree'], fam, N, sp, extra)
    except YastnError as e:
        raise Violation('tree:unexpected_YastnError', str(e))
    is_mpo = case['kind'] == 'mpo'
    labels = ['family:%s:%s' % (G.FAMILIES[fam][0], G.FAMILIES[fam][1]['sym']), f'N={N}', 'kind:' + case['kind']] + sorted('node:' + k for k in kinds)
    got = G.mps_dense(y, sp)
    top = max(_SCALES + [1e-300])
    check_close('tree:dense', got, dn, scale=max(np.linalg.norm(dn), np.linalg.norm(got), top * 1e-3))
    if np.linalg.norm(dn) < 1e-9 * top:
        # the tree cancels (e.g. -A + A): what is left is rounding noise, relative clauses below have no scale
        return Res(labels=labels + ['cancellation'], nontrivial=False)
    # to_tensor / to_matrix
    if is_mpo:
        legs = {}
        for k in range(N):
            legs[2 * k] = sp.leg
            legs[2 * k + 1] = sp.leg.conj()
        yt = y.to_tensor()
        legs = {k: (legs[k] if yt.get_legs(k).s == legs[k].s else legs[k].conj()) for k in legs}
        T = yt.to_numpy(legs=legs)
        T = T.transpose(list(range(0, 2 * N, 2)) + list(range(1, 2 * N, 2))).reshape(sp.d ** N, sp.d ** N)
        check_close('tree:to_tensor', T, dn)
    else:
        T = y.to_tensor().to_numpy(legs={k: sp.leg for k in range(N)}).reshape(-1)
        check_close('tree:to_tensor', T, dn)
    if case['top'] == 'reverse_sites':
        r = y.reverse_sites()
        check_close('tree:reverse_sites', G.mps_dense(r, sp), rev_dense(dn, sp.d, N, is_mpo))
        labels.append('top:reverse')
    elif case['top'] == 'conj':
        check_close('tree:conj', G.mps_dense(y.conj(), sp), dn.conj())
    elif case['top'] == 'H':
        check_close('tree:H', G.mps_dense(y.H, sp), dn.conj().T if is_mpo else dn.conj())
        check_close('tree:T', G.mps_dense(y.T, sp), dn.T if is_mpo else dn)
    nrm2 = mps.measure_overlap(y, y)
    check_close('measure:norm2', nrm2, np.vdot(dn, dn), scale=max(1e-300, abs(np.vdot(dn, dn))))
    if not is_mpo:
        other = G.build_state(case['other'], fam, N, extra)
        if other is None:
            raise Reject('zero_random_state')
        do = G.mps_dense(other, sp)
        sc = max(np.linalg.norm(do) * np.linalg.norm(dn), 1e-300)
        check_close('measure:overlap', mps.measure_overlap(other, y), np.vdot(do, dn), scale=sc)
        check_close('measure:vdot2', mps.vdot(y, other), np.vdot(dn, do), scale=sc)
        Os = [G.build_mpo(m, fam, N, extra) for m in case['mpos']]
        dOs = [G.mps_dense(O, sp) for O in Os]
        scO = sc * max(np.linalg.norm(dOs[0], 2), 1e-300)
        check_close('measure:mpo', mps.measure_mpo(other, Os[0], y), np.vdot(do, dOs[0] @ dn), scale=scO)
        check_close('measure:vdot3', mps.vdot(other, Os[0], y), np.vdot(do, dOs[0] @ dn), scale=scO)
        if len(Os) > 1:
            tot = sum(dOs)
            check_close('measure:mpo_sum', mps.measure_mpo(other, Os, y), np.vdot(do, tot @ dn),
                        scale=sc * max(sum(np.linalg.norm(x, 2) for x in dOs), 1e-300))
            labels.append('sum_of_mpos')
        # periodic MPO: the OBC tensors cyclically shifted around a ring
        k = case['pbc_shift']
        P_ = mps.Mpo(N, periodic=True)
        for n in range(N):
            P_.A[n] = Os[0].A[(n + k) % N]
        P_.factor = Os[0].factor
        dP = G.mpo_pbc_dense(P_, sp)
        check_close('measure:mpo_pbc', mps.measure_mpo(other, P_, y), np.vdot(do, dP @ dn), scale=sc * max(np.linalg.norm(dP, 2), 1e-300))
        if k:
            labels.append('pbc_shifted')
        exact = dOs[0] @ dn
        if case['zipper'] and np.linalg.norm(exact) > 1e-12 * scO:
            z = mps.zipper(Os[0], y, opts_svd={'tol': 1e-14}, normalize=False)
            check_close('zipper:product', G.mps_dense(z, sp), exact, tol=1e-9)
            zn, disc = mps.zipper(Os[0], y, opts_svd={'tol': 1e-14}, normalize=True, return_discarded=True)
            check_close('zipper:normalized', G.mps_dense(zn, sp), exact / np.linalg.norm(exact), scale=1.0, tol=1e-9)
            if not zn.is_canonical(to='first', tol=1e-10):
                raise Violation('zipper:not_canonical', 'zipper result is not canonical to the first site')
            labels.append('zipper')
        if case['compress'] and np.linalg.norm(exact) > 1e-10 * scO and N >= 2:
            start = mps.zipper(Os[0], y, opts_svd={'tol': 1e-14}, normalize=True)
            C.reseed_backend(7)
            # perturb the exact product so that the sweep has something to do
            noise = mps.random_mps(mps.product_mpo(ops.I(), N=N), n=tuple(case['n']), D_total=2, dtype=case['other']['dtype']) if True else None
            try:
                start = mps.add(start, noise, amplitudes=[1, 0.3]) if noise is not None else start
            except YastnError:
                pass
            start.canonize_(to='last', normalize=True).canonize_(to='first', normalize=True)
            out = mps.compression_(start, [Os[0], y], method=case['compress'], max_sweeps=30, Schmidt_tol=1e-12,
                                   opts_svd={'tol': 1e-14} if case['compress'] == '2site' else None, normalize=False)
            if out.max_dSchmidt is not None and out.max_dSchmidt < 1e-12 and out.sweeps < 30:
                check_close('compression:product', G.mps_dense(start, sp), exact, tol=1e-7)
                labels.append('compression_converged')
            else:
                labels.append('compression_not_converged')
    scal_special = _has_special_amp(case['tree'])
    nt = (N >= 2 and len({k for k in kinds if not k.startswith('leaf')}) >= 2) or N in (1, 2) or (case['n'] is not None and any(case['n'])) or scal_special
    return Res(labels=labels, nontrivial=bool(nt))


def _has_special_amp(tree):
    if tree['op'] == 'add' and tree['amps']:
        if any(isinstance(a, dict) or a <= 0 for a in tree['amps']):
            return True
    if tree['op'] == 'scal' and (isinstance(tree['c'], dict) or tree['c'] < 0):
        return True
    for k in ('arg', 'a', 'b'):
        if k in tree and _has_special_amp(tree[k]):
            return True
    return any(_has_special_amp(t) for t in tree.get('args', []))


def parts(tier):
    return [HypPart('trees', draw_case, execute, {'quick': 2000, 'thorough': 30000})]
