"""C13 - Truncation keeps exactly the largest weights and reports the true error.

Part 'mask'   : diagonal spectra built directly (ties, zeros, single-element sectors, all-equal) x all combinations of
                D_total / D_block (scalar, dict) / tol / tol_block (scalar, dict): truncation_mask must be a VALID mask
                under the documented two-stage rule (validity predicate; ties are the only freedom).
Part 'factor' : svd_with_truncation / eigh_with_truncation on generated tensors: kept values are a valid selection from
                the full spectrum, || a - U S V || == || discarded || and non-binding limits discard no weight.
"""
import math

import numpy as np

from vlib import common as C
from vlib import program as P
from vlib.common import yastn, YastnError
from vlib.runner import HypPart, Res, Violation, Reject

ID = 'C13'
RULE = ("One case = one spectrum with one set of limits (mask) or one tensor/bipartition with limits (factor). Non-trivial: at "
        "least one limit binds AND (a tie or an exact zero sits at a cut, or a per-sector and a global limit both bind). "
        "Distinct by SHA-1 of the descriptor.")
ASSUMPTIONS = ["spectra are non-negative (documented domain of truncation_mask); truncate_multiplets / mask_f / which in (SM, SR) "
               "are outside the claim", "the reference applies the documented two-stage rule with the same floating comparisons",
               "error identity tolerance 1e-11 * ||a||"]

INF = float('inf')
POOL = [0.0, 1e-3, 0.25, 0.5, 1.0, 2.0, 0.5, 1.0]


def jnum(x):
    return 'inf' if x == INF else x


def unj(x):
    return INF if x == 'inf' else x


def draw_limits(data, sectors, values):
    from hypothesis import strategies as st
    total = sum(len(v) for v in values)
    flat = sorted({x for v in values for x in v})
    vmax = max(flat) if flat else 1.0
    lim = {}
    lim['D_total'] = jnum(data.draw(st.sampled_from([INF, INF, max(0, total - 1), max(1, total // 2), 1, 0, total, total + 1, 2, 3])))
    kind = data.draw(st.sampled_from(['inf', 'int', 'int', 'dict']))
    if kind == 'inf':
        lim['D_block'] = 'inf'
    elif kind == 'int':
        lim['D_block'] = data.draw(st.sampled_from([1, 2, 0, 3, 6, 1]))
    else:
        keys = [t for t in sectors if not P.chance(data, 1, 3)]
        lim['D_block'] = {'dict': [[list(t), data.draw(st.sampled_from([0, 1, 2, 3, 'inf']))] for t in keys]}
    tols = [0.0, 0.0] + [x / vmax for x in flat if vmax > 0] + [0.3, 1e-4, 1.0, 0.999]
    lim['tol'] = data.draw(st.sampled_from(tols))
    kind = data.draw(st.sampled_from(['zero', 'zero', 'scalar', 'dict']))
    if kind == 'zero':
        lim['tol_block'] = 0.0
    elif kind == 'scalar':
        lim['tol_block'] = data.draw(st.sampled_from(tols))
    else:
        keys = [t for t in sectors if not P.chance(data, 1, 3)]
        lim['tol_block'] = {'dict': [[list(t), data.draw(st.sampled_from(tols))] for t in keys]}
    return lim


def limits_kwargs(lim):
    kw = {'D_total': unj(lim['D_total']), 'tol': lim['tol']}
    db = lim['D_block']
    kw['D_block'] = {tuple(t): unj(v) for t, v in db['dict']} if isinstance(db, dict) else unj(db)
    tb = lim['tol_block']
    kw['tol_block'] = {tuple(t): v for t, v in tb['dict']} if isinstance(tb, dict) else tb
    return kw


def reference_selection(spec, kw):
    """spec: {t: 1-D array of non-negative values}. Returns (stage1 multiset per sector, K, kept multiset, info)."""
    D_block, tol_block, D_total, tol = kw['D_block'], kw['tol_block'], kw['D_total'], kw['tol']
    stage1 = {}
    info = {'block_binds': False, 'global_binds': False, 'tie_at_cut': False, 'zero_at_cut': False}
    for t, v in spec.items():
        v = np.asarray(v, dtype=np.float64)
        tol_rel = tol_block.get(t, 0.0) if isinstance(tol_block, dict) else tol_block
        mx = np.abs(v).max() if v.size else 0.0
        above = int(np.sum(v > tol_rel * mx))
        Dbl = D_block.get(t, 0) if isinstance(D_block, dict) else D_block
        Dbl = min(Dbl, above)
        srt = np.sort(v)[::-1]
        keep = srt[:int(Dbl)] if Dbl < len(v) else srt
        if Dbl == 0:
            keep = srt[:0]
        if len(keep) < len(v):
            if np.any(srt[len(keep):] > 0):
                info['block_binds'] = True
            if len(keep) and srt[len(keep)] == srt[len(keep) - 1]:
                info['tie_at_cut'] = True
            if srt[len(keep)] == 0:
                info['zero_at_cut'] = True
        stage1[t] = keep
    surv = np.sort(np.concatenate([stage1[t] for t in stage1]) if stage1 else np.zeros(0))[::-1]
    mx = np.abs(surv).max() if surv.size else 0.0
    Dtol = int(np.sum(surv > tol * mx))
    K = int(min(D_total, Dtol))
    kept = surv[:K]
    if K < len(surv):
        if np.any(surv[K:] > 0):
            info['global_binds'] = True
        if K and surv[K] == surv[K - 1]:
            info['tie_at_cut'] = True
        if surv[K] == 0:
            info['zero_at_cut'] = True
    return stage1, K, kept, info


def check_mask(spec, mask, kw, what=''):
    """Validity predicate. spec/mask: {t: array}. Raises Violation."""
    stage1, K, kept_ref, info = reference_selection(spec, kw)
    kept_all = []
    for t, v in spec.items():
        v = np.asarray(v)
        m = np.asarray(mask.get(t, np.zeros(len(v), dtype=bool))).astype(bool)
        if m.shape != v.shape:
            raise Violation('mask:shape', f'{what}sector {t}: mask shape {m.shape} vs spectrum {v.shape}')
        kv, dv = v[m], v[~m]
        if len(kv) > len(stage1[t]):
            raise Violation('mask:block_limit', f'{what}sector {t}: kept {len(kv)} values, per-sector stage allows {len(stage1[t])} '
                                                f'(values {v.tolist()}, limits {kw})')
        if len(kv) and len(dv) and dv.max() > kv.min():
            raise Violation('mask:not_top_prefix', f'{what}sector {t}: discarded {dv.max()} > kept {kv.min()} (values {v.tolist()}, limits {kw})')
        kept_all.extend(kv.tolist())
    kept_all = np.sort(np.array(kept_all))[::-1]
    if len(kept_all) != K:
        raise Violation('mask:count', f'{what}kept {len(kept_all)} values, the documented rule keeps {K} (spectrum '
                                      f'{ {t: np.asarray(v).tolist() for t, v in spec.items()} }, limits {kw})')
    if not np.array_equal(kept_all, kept_ref):
        raise Violation('mask:not_maximal', f'{what}kept multiset {kept_all.tolist()} != largest-weight selection {kept_ref.tolist()} '
                                            f'(limits {kw})')
    return info


# ---- part: mask -------------------------------------------------------------------------------------------------

def draw_mask_case(data, tier):
    from hypothesis import strategies as st
    sym = data.draw(st.sampled_from(['U1', 'Z2', 'Z3', 'U1xU1', 'dense', 'Z2xU1', 'U1xU1xZ2', 'U1']))
    box = C.charge_box(sym, 1)
    ns = data.draw(st.sampled_from([2, 3, 1, 4, 5, 2]))
    ns = min(ns, len(box))
    sectors = sorted(data.draw(st.lists(st.sampled_from(box), min_size=ns, max_size=ns, unique=True)))
    style = data.draw(st.sampled_from(['pool', 'pool', 'float', 'equal', 'mixed']))
    values = []
    for _ in sectors:
        k = data.draw(st.sampled_from([1, 2, 3, 4, 6, 1, 2]))
        if style == 'pool':
            v = [data.draw(st.sampled_from(POOL)) for _ in range(k)]
        elif style == 'equal':
            v = [1.0] * k
        elif style == 'float':
            v = [data.draw(st.floats(0, 3, allow_nan=False, width=32)) for _ in range(k)]
        else:
            v = [data.draw(st.one_of(st.sampled_from(POOL), st.floats(0, 3, allow_nan=False, width=32))) for _ in range(k)]
        values.append(v)
    lim = draw_limits(data, sectors, values)
    return {'sym': sym, 'sectors': [list(t) for t in sectors], 'values': values, 'lim': lim, 's': data.draw(st.sampled_from([1, -1])),
            'shuffle': data.draw(st.integers(0, 999))}


def execute_mask_case(desc):
    config = C.make_config({'sym': desc['sym']})
    S = yastn.Tensor(config=config, s=(desc['s'], -desc['s']), isdiag=True)
    rng = np.random.default_rng(desc['shuffle'])
    spec = {}
    for t, v in zip(desc['sectors'], desc['values']):
        v = np.array(v, dtype=np.float64)
        v = v[rng.permutation(len(v))]          # spectra inside a sector need not be sorted
        S.set_block(ts=tuple(t), Ds=len(v), val=v)
        spec[tuple(t)] = v
    kw = limits_kwargs(desc['lim'])
    before = np.asarray(S.data).copy()
    try:
        M = yastn.truncation_mask(S, **kw)
    except YastnError as e:
        raise Violation('mask:unexpected_YastnError', str(e))
    if not np.array_equal(before, np.asarray(S.data)):
        raise Violation('mask:input_modified', 'truncation_mask changed its argument')
    if not M.isdiag or M.get_legs() != S.get_legs():
        raise Violation('mask:structure', 'mask is not a diagonal tensor on the legs of S')
    mask = {}
    for t in spec:
        mask[t] = np.asarray(M[t + t])
    info = check_mask(spec, mask, kw)
    # applying the mask keeps exactly the selected values
    St = M.apply_mask(S, axes=0)
    kept = np.sort(np.concatenate([spec[t][mask[t].astype(bool)] for t in spec]))
    got = np.sort(np.asarray(St.data))
    if not np.array_equal(kept, got):
        raise Violation('mask:apply', 'apply_mask(S) does not hold the selected values')
    binds = info['block_binds'] or info['global_binds']
    nt = binds and (info['tie_at_cut'] or info['zero_at_cut'] or (info['block_binds'] and info['global_binds']))
    labels = [k for k, v in info.items() if v] + ['sym:' + desc['sym']] + \
             [f"D_block:{'dict' if isinstance(desc['lim']['D_block'], dict) else 'scalar'}",
              f"tol_block:{'dict' if isinstance(desc['lim']['tol_block'], dict) else 'scalar'}"]
    if not binds:
        labels.append('non_binding')
    return Res(labels=labels, nontrivial=nt)


# ---- part: factor -----------------------------------------------------------------------------------------------

draw_input_program = P.draw_input_program
last_tensor = P.last_tensor


def draw_factor_case(data, tier):
    from hypothesis import strategies as st
    prog = draw_input_program(data, tier)
    st_ = P.State(prog['cfg'], with_data=False)
    for s_ in prog['steps']:
        P.draw_apply(st_, s_)
    m = st_.pool[-1]
    if m.ndim < 2 or m.isdiag:
        prog = {'cfg': prog['cfg'], 'steps': prog['steps'][:1]}
        st_ = P.State(prog['cfg'], with_data=False)
        P.draw_apply(st_, prog['steps'][0])
        m = st_.pool[-1]
    perm = list(data.draw(st.permutations(list(range(m.ndim)))))
    k = data.draw(st.integers(1, m.ndim - 1))
    f = data.draw(st.sampled_from(['svd', 'svd', 'eigh_LM', 'eigh_LR']))
    total = int(np.prod([l.dim for l in m.legs[:3]]))
    lim = {'D_total': jnum(data.draw(st.sampled_from([INF, 1, 2, 3, 4, 6, 0, 8]))),
           'D_block': data.draw(st.sampled_from(['inf', 'inf', 1, 2, 3])),
           'tol': data.draw(st.sampled_from([0.0, 0.0, 0.1, 0.5, 1e-14, 0.9])),
           'tol_block': data.draw(st.sampled_from([0.0, 0.0, 0.2, 0.7]))}
    return {'prog': prog, 'axes': [perm[:k], perm[k:]], 'f': f, 'lim': lim, 'sU': data.draw(st.sampled_from([1, -1])),
            'nU': data.draw(st.booleans()), 'Uaxis': data.draw(st.integers(-(k + 1), k)), 'Vaxis': data.draw(st.integers(-(m.ndim - k + 1), m.ndim - k))}


def spectrum_of(S):
    return {t[:len(t) // 2]: np.asarray(S[t]) for t in S.get_blocks_charge()}


def execute_factor_case(desc):
    try:
        a, m = last_tensor(desc['prog'])
    except P.StepFail as e:
        raise Reject('input_program_failed')   # belongs to C01
    if a.ndim < 2 or a.isdiag:
        raise Reject('rank<2')
    l, r = desc['axes']
    axes = (tuple(l), tuple(r))
    kw = limits_kwargs(desc['lim'])
    f = desc['f']
    sU = desc['sU']
    labels = ['f:' + f, 'sym:' + desc['prog']['cfg']['sym']]
    if f == 'svd':
        nrm = a.norm()
        if nrm == 0:
            raise Reject('zero_tensor')
        Uf, Sf, Vf = a.svd(axes=axes, sU=sU, nU=desc['nU'])
        U, S, V = a.svd_with_truncation(axes=axes, sU=sU, nU=desc['nU'], Uaxis=desc['Uaxis'], Vaxis=desc['Vaxis'], **kw)
        full = spectrum_of(Sf)
        kept = spectrum_of(S)
        # the kept values must be a valid selection from the full spectrum: reconstruct a mask per sector (values are sorted)
        mask = {}
        for t, v in full.items():
            kv = kept.get(t, np.zeros(0))
            mk = np.zeros(len(v), dtype=bool)
            mk[:len(kv)] = True
            if not np.array_equal(np.sort(v)[::-1][:len(kv)], np.sort(kv)[::-1]):
                raise Violation('factor:kept_not_largest', f'sector {t}: kept {kv.tolist()} from {v.tolist()}')
            mask[t] = mk
            full[t] = np.sort(v)[::-1]
        info = check_mask(full, mask, kw, what='svd_with_truncation: ')
        # consistent sectors on the connecting legs
        lu, lv = U.get_legs(desc['Uaxis']), V.get_legs(desc['Vaxis'])
        ls0, ls1 = S.get_legs()
        if lu.s != sU or lv.s != -sU or lu.t != lv.t or lu.D != lv.D or (len(S.get_blocks_charge()) and (ls0 != lu.conj() or ls1 != lv.conj())):
            raise Violation('factor:connecting_leg', f'U leg {lu}, S legs {ls0}, {ls1}, V leg {lv}')
        # error identity
        Um = U.moveaxis(desc['Uaxis'], -1)
        Vm = V.moveaxis(desc['Vaxis'], 0)
        rec = Um @ S @ Vm
        ap = a.transpose(axes=tuple(l) + tuple(r))
        err = (ap - rec).norm() if len(rec.get_blocks_charge()) else ap.norm()
        disc2 = sum(float(np.sum(v[~mask[t]] ** 2)) for t, v in full.items())
        if abs(err - math.sqrt(disc2)) > 1e-11 * max(1.0, nrm):
            raise Violation('factor:error_identity', f'||a - USV|| = {err}, ||discarded|| = {math.sqrt(disc2)}')
        if not (info['block_binds'] or info['global_binds']):
            labels.append('non_binding')
            if disc2 > 0:
                raise Violation('factor:non_binding_discards', f'limits do not bind but weight {disc2} was discarded')
    else:
        which = f.split('_')[1]
        # Hermitian input: gram matrix of a over the right group (positive semi-definite), shifted for LM to be indefinite
        g = yastn.tensordot(a, a, axes=(tuple(r), tuple(r)), conj=(0, 1))
        k = len(l)
        if which == 'LM':
            g2 = g.fuse_legs(axes=(tuple(range(k)), tuple(range(k, 2 * k))), mode='hard') if k > 1 else g.fuse_meta_to_hard()
            if len(g2.get_blocks_charge()) == 0:
                raise Reject('zero_tensor')
            sh = 0.37 * g2.norm()
            g2 = g2 - sh * yastn.eye(g2.config, legs=g2.get_legs(), isdiag=False)
            g = g2.unfuse_legs(axes=(0, 1)) if k > 1 else g2
            # re-order: unfuse puts the groups back as (l..., l*...)
        gaxes = (tuple(range(k)), tuple(range(k, 2 * k)))
        nrm = g.norm()
        if nrm == 0:
            raise Reject('zero_tensor')
        Sf, Uf = g.eigh(axes=gaxes, sU=sU, which=which)
        Ua = desc['Uaxis'] % (k + 1)
        S, U = g.eigh_with_truncation(axes=gaxes, sU=sU, Uaxis=Ua, which=which, **kw)
        full = spectrum_of(Sf)
        kept = spectrum_of(S)
        weight = (lambda v: np.abs(v)) if which == 'LM' else (lambda v: v)
        mask, wfull = {}, {}
        for t, v in full.items():
            kv = kept.get(t, np.zeros(0))
            w = weight(v)
            # eigenvalues inside a sector are ordered by `which`: the kept ones are a prefix of that order
            if not np.array_equal(v[:len(kv)], kv):
                raise Violation('factor:eigh_kept_not_prefix', f'sector {t}: kept {kv.tolist()} from {v.tolist()} (which={which})')
            mk = np.zeros(len(v), dtype=bool)
            mk[:len(kv)] = True
            mask[t] = mk
            wfull[t] = w
        if which == 'LR' and any((v < 0).any() for v in wfull.values()):
            # documented: tolerance-based truncation discards all negative values; the two-stage rule on the raw values
            wfull = {t: v for t, v in wfull.items()}
        info = check_mask({t: np.where(v > 0, v, v) for t, v in wfull.items()}, mask, kw, what='eigh_with_truncation: ') \
            if all((v >= 0).all() for v in wfull.values()) else {'block_binds': True, 'global_binds': True, 'tie_at_cut': False, 'zero_at_cut': False}
        Um = U.moveaxis(Ua, -1)
        rec = yastn.tensordot(Um @ S, Um, axes=(Um.ndim - 1, Um.ndim - 1), conj=(0, 1))
        err = (g - rec).norm() if len(rec.get_blocks_charge()) else g.norm()
        disc2 = sum(float(np.sum(np.abs(v[~mask[t]]) ** 2)) for t, v in full.items())
        if abs(err - math.sqrt(disc2)) > 1e-10 * max(1.0, nrm):
            raise Violation('factor:eigh_error_identity', f'||a - USU^+|| = {err}, ||discarded|| = {math.sqrt(disc2)}')
    binds = info['block_binds'] or info['global_binds']
    nt = binds and (info['tie_at_cut'] or info['zero_at_cut'] or (info['block_binds'] and info['global_binds']))
    labels += [k_ for k_, v in info.items() if v]
    return Res(labels=labels, nontrivial=nt)


def parts(tier):
    return [HypPart('mask', draw_mask_case, execute_mask_case, {'quick': 8000, 'thorough': 300000}),
            HypPart('factor', draw_factor_case, execute_factor_case, {'quick': 1500, 'thorough': 40000})]
