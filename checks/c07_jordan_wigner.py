"""C07 - MPO construction and measurements realise Jordan-Wigner operators.

Part 'onsite'  : exhaustive on-site algebra of every predefined operator family x symmetry (CAR, species statistics, su(2),
                 named eigenvectors, agreement of the symmetric versions with the dense-symmetry version).
Part 'mpo'     : generate_mpo from random Hterm lists (any operator order, repeated sites, charged operators with a common total
                 charge, complex amplitudes, custom f_map, I given as MPO / tensor / list) equals sum_k a_k * JW product.
Part 'latex'   : Generator.mpo_from_latex on strings from a grammar of the documented forms, against the same reference.
Part 'measure' : measure_1site / measure_2site (all bond patterns) / measure_nsite / rdm / sample probabilities on random states
                 of every admissible charge equal <psi| JW(...) |psi>, traces against fkron products and Born probabilities.
"""
import itertools

import warnings

import numpy as np

from vlib import common as C
from vlib import mpsgen as G
from vlib import jw as JW
from vlib.common import yastn, YastnError, gsum
from vlib.runner import HypPart, EnumPart, Res, Violation, Reject, record
import yastn.tn.mps as mps

ID = 'C07'
RULE = ("mpo/latex: one Hamiltonian specification; measure: one state + one measurement request. Non-trivial: fermionic config with "
        ">= 2 parity-odd operators on distinct sites AND (some i > j, or a repeated site, or an f_map != identity, or a multi-component "
        "fermionic flag); bosonic cases are labelled separately. onsite: exhaustive. Distinct by SHA-1 of the descriptor.")
ASSUMPTIONS = ["JW reference of vlib/jw.py (standard convention, strings on sites earlier in the fermionic order)",
               "local matrices are the operators' own to_numpy (validated by the exhaustive onsite part)", "tolerance 1e-10 relative"]

TOL = 1e-10
AMPS = [1, -1, 0.5, 2, {'re': 0, 'im': 1}, {'re': 0.5, 'im': -1}, 1.5, -0.25]


def cx(v):
    return C.cplx(v)


def fermionic_families():
    return [i for i, (nm, kw) in enumerate(G.FAMILIES) if 'Fermions' in nm]


# ---- onsite algebra (exhaustive) ------------------------------------------------------------------------------------

def onsite_chunks(tier):
    return [{'fam': i} for i in range(len(G.FAMILIES))]


def run_onsite_chunk(ch, res, known, ctx):
    fam = ch['fam']
    name, kw = G.FAMILIES[fam]
    ops, sp, named = G.family(fam)
    d = sp.d
    Id = np.eye(d)
    M = {k: sp.dense(v) for k, v in named.items()}
    fails = []

    def req(cond, what):
        r = Res(nontrivial=True, labels=[f'{name}:{kw["sym"]}'])
        if not cond:
            r = Res('violation', key=f'onsite:{name}:{kw["sym"]}:{what}', msg=f'{what} fails for {name} {kw}', nontrivial=True)
        record(res, {'fam': fam, 'clause': what}, r, known, want_samples=1)

    req(np.array_equal(M['I'], Id), 'identity')
    if name == 'SpinlessFermions':
        c, cp, n = M['c'], M['cp'], M['n']
        req(np.array_equal(c @ cp + cp @ c, Id), 'CAR')
        req(np.array_equal(c @ c, 0 * Id) and np.array_equal(cp @ cp, 0 * Id), 'nilpotent')
        req(np.array_equal(n, cp @ c) and np.array_equal(cp, c.T), 'n=cp c')
        for v in (0, 1):
            vec = sp.vec(ops.vec_n(v))
            req(np.array_equal(n @ vec, v * vec) and abs(np.linalg.norm(vec) - 1) < 1e-14, f'vec_n({v})')
    if name in ('SpinfulFermions', 'SpinfulFermions_tJ'):
        tJ = name.endswith('tJ')
        for s in 'ud':
            c, cp, n = M['c' + s], M['cp' + s], M['n' + s]
            req(np.array_equal(cp, c.T), f'cp{s}=c{s}^T')
            req(np.array_equal(n, cp @ c), f'n{s}=cp c')
            req(np.array_equal(c @ c, 0 * Id), f'c{s}^2=0')
            if not tJ:
                req(np.array_equal(c @ cp + cp @ c, Id), f'CAR {s}')
        cu, cd = M['cu'], M['cd']
        # on one site the two species anticommute as matrices for every shipped symmetry except distinguishable U1xU1,
        # where the local matrices commute (species statistics is then carried by the configuration, not by a sign)
        anti = np.array_equal(cu @ cd + cd @ cu, 0 * Id) and np.array_equal(cu @ M['cpd'] + M['cpd'] @ cu, 0 * Id)
        comm = np.array_equal(cu @ cd - cd @ cu, 0 * Id) and np.array_equal(cu @ M['cpd'] - M['cpd'] @ cu, 0 * Id)
        if not tJ:      # projected (t-J) operators do not satisfy the canonical relations between species
            req(anti or comm, 'species (anti)commute')
        if kw['sym'] == 'U1xU1' and not tJ:
            req(True, 'species distinguishable')
        elif not tJ:
            req(anti, 'species anticommute')
        occs = [(0, 0), (1, 0), (0, 1)] + ([] if tJ else [(1, 1)])
        for occ in occs:
            vec = sp.vec(ops.vec_n(occ))
            req(np.allclose(M['nu'] @ vec, occ[0] * vec) and np.allclose(M['nd'] @ vec, occ[1] * vec) and abs(np.linalg.norm(vec) - 1) < 1e-14,
                f'vec_n({occ})')
        if tJ:
            req(np.array_equal(M['nu'] @ M['nd'], 0 * Id), 'no double occupancy')
            req(np.allclose(M['Sz'], 0.5 * (M['nu'] - M['nd'])) and np.allclose(M['Sp'], M['cpu'] @ M['cd']) and np.allclose(M['Sm'], M['Sp'].T), 'tJ spin operators')
            req(np.allclose(M['h'], Id - M['nu'] - M['nd']), 'hole operator')
    if name == 'Spin12':
        sz, sp_, sm = M['sz'], M['sp'], M['sm']
        req(np.allclose(sp_ @ sm - sm @ sp_, 2 * sz), '[S+,S-]=2Sz')
        req(np.allclose(M['z'], 2 * sz) and np.allclose(sm, sp_.T), 'z=2sz')
        if 'x' in M:
            req(np.allclose(M['x'], sp_ + sm) and np.allclose(M['sx'], 0.5 * M['x']), 'x=s+ + s-')
        if 'y' in M:
            req(np.allclose(M['y'], -1j * (sp_ - sm)) and np.allclose(M['iy'], 1j * M['y']) and np.allclose(M['sy'], 0.5 * M['y']), 'y')
            req(np.allclose(M['x'] @ M['y'] - M['y'] @ M['x'], 2j * M['z']), '[x,y]=2iz')
        for v in (1, -1):
            vec = sp.vec(ops.vec_z(v))
            req(np.allclose(M['z'] @ vec, v * vec) and abs(np.linalg.norm(vec) - 1) < 1e-14, f'vec_z({v})')
        if kw['sym'] == 'dense':
            for v in (1, -1):
                req(np.allclose(M['x'] @ sp.vec(ops.vec_x(v)), v * sp.vec(ops.vec_x(v))), f'vec_x({v})')
                req(np.allclose(M['y'] @ sp.vec(ops.vec_y(v)), v * sp.vec(ops.vec_y(v))), f'vec_y({v})')
    if name == 'Spin1':
        sz, sp_, sm = M['sz'], M['sp'], M['sm']
        req(np.allclose(sp_ @ sm - sm @ sp_, 2 * sz) and np.allclose(sm, sp_.T), '[S+,S-]=2Sz')
        sx, sy = 0.5 * (sp_ + sm), -0.5j * (sp_ - sm)
        req(np.allclose(sx @ sx + sy @ sy + sz @ sz, 2 * Id), 'S^2=2')
        if 'sx' in M:
            req(np.allclose(M['sx'], sx) and np.allclose(M['sy'], sy) and np.allclose(M['isy'], 1j * sy), 'sx,sy')
        for v in (1, 0, -1):
            vec = sp.vec(ops.vec_z(v))
            req(np.allclose(sz @ vec, v * vec) and abs(np.linalg.norm(vec) - 1) < 1e-14, f'vec_z({v})')
    # symmetric versions agree with the reference version after the basis permutation defined by the named eigenvectors
    ref_idx = next(i for i, (nm, k2) in enumerate(G.FAMILIES) if nm == name and (name != 'Qdit' or k2 == kw))
    if ref_idx != fam and name != 'Qdit':
        ops0, sp0, named0 = G.family(ref_idx)
        if name in ('Spin12', 'Spin1'):
            vals = (1, -1) if name == 'Spin12' else (1, 0, -1)
            B = np.stack([sp.vec(ops.vec_z(v)) for v in vals], axis=1)
            B0 = np.stack([sp0.vec(ops0.vec_z(v)) for v in vals], axis=1)
        else:
            occs = [(0,), (1,)] if name == 'SpinlessFermions' else [(0, 0), (1, 0), (0, 1)] + ([] if name.endswith('tJ') else [(1, 1)])
            arg = (lambda o: o[0]) if name == 'SpinlessFermions' else (lambda o: o)
            B = np.stack([sp.vec(ops.vec_n(arg(o))) for o in occs], axis=1)
            B0 = np.stack([sp0.vec(ops0.vec_n(arg(o))) for o in occs], axis=1)
        for k in sorted(set(named) & set(named0)):
            if kw['sym'] == 'U1xU1' and k in ('cd', 'cpd'):
                continue    # documented: for U1xU1 the species are distinguishable and their local operators commute (no relative sign)
            A = B.conj().T @ M[k] @ B
            A0 = B0.conj().T @ sp0.dense(named0[k]) @ B0
            req(np.allclose(A, A0), f'same_as_{G.FAMILIES[ref_idx][1]["sym"]}:{k}')


def onsite_execute(desc):
    return Res(nontrivial=True)


# ---- Hterm lists ------------------------------------------------------------------------------------------------------

def draw_terms(data, fam, N, tier, nterms=None, allow_charged=True):
    """Hterm descriptors with a common total charge: [{'amp', 'pos', 'ops'}]."""
    from hypothesis import strategies as st
    ops, sp, named = G.family(fam)
    names = sorted(k for k in named if k != 'I')
    if not names:
        names = ['I']
    sym = sp.sym
    zero = tuple(0 for _ in C.MODULI[sym])
    by_charge = {}
    for k in names:
        by_charge.setdefault(tuple(named[k].n), []).append(k)
    target = zero
    if allow_charged and P_chance(data, 1, 4):
        # a common non-zero total charge: that of one or two drawn operators
        k1 = data.draw(st.sampled_from(names))
        target = tuple(named[k1].n)
    nterms = nterms or data.draw(st.sampled_from([1, 2, 3, 4, 6, 8, 2]))
    terms = []
    for _ in range(nterms):
        nop = data.draw(st.sampled_from([1, 2, 2, 3, 4, 2]))
        chosen = [data.draw(st.sampled_from(names)) for _ in range(nop - 1)]
        # the last operator fixes the total charge when possible, otherwise re-draw neutral products
        cur = gsum(sym, [named[k].n for k in chosen], [1] * len(chosen)) if chosen else zero
        need = gsum(sym, [target, cur], [1, -1])
        if need in by_charge:
            chosen.append(data.draw(st.sampled_from(by_charge[need])))
        elif need == zero:
            pass
        else:
            # complete with operators that undo the surplus one by one (adjoints exist for every charged operator)
            fix = _complete(data, sym, need, by_charge)
            if fix is None:
                chosen = [data.draw(st.sampled_from(by_charge[target]))] if target in by_charge else []
            else:
                chosen += fix
        if not chosen:
            chosen = [data.draw(st.sampled_from(by_charge.get(zero, names)))] if target == zero else [data.draw(st.sampled_from(by_charge[target]))]
        pos = [data.draw(st.integers(0, N - 1)) for _ in chosen]
        terms.append({'amp': data.draw(st.sampled_from(AMPS)), 'pos': pos, 'ops': chosen})
    return terms, list(target)


def P_chance(data, a, b):
    from vlib import program as P
    return P.chance(data, a, b)


def _complete(data, sym, need, by_charge):
    from hypothesis import strategies as st
    out = []
    for _ in range(4):
        zero = tuple(0 for _ in need)
        if need == zero:
            return out
        if need in by_charge:
            out.append(data.draw(st.sampled_from(by_charge[need])))
            return out
        # pick any charged operator that reduces |need|
        cands = [(t, ks) for t, ks in by_charge.items() if any(t) and sum(abs(a - b) for a, b in zip(need, t)) < sum(abs(a) for a in need)]
        if not cands:
            return None
        t, ks = data.draw(st.sampled_from(sorted(cands)))
        out.append(data.draw(st.sampled_from(ks)))
        need = gsum(sym, [need, t], [1, -1])
    return None


def dense_hamiltonian(terms, sp, named, N, rank=None):
    H = np.zeros((sp.d ** N, sp.d ** N), dtype=np.complex128)
    for t in terms:
        H = H + cx(t['amp']) * JW.jw_product(sp, [named[k] for k in t['ops']], t['pos'], N, rank)
    return H


def term_features(terms, sp, named, rank):
    odd_distinct = repeated = unordered = False
    for t in terms:
        odd_sites = [p for k, p in zip(t['ops'], t['pos']) if sp.is_odd(named[k].n)]
        if len(set(odd_sites)) >= 2:
            odd_distinct = True
        if len(set(t['pos'])) < len(t['pos']):
            repeated = True
        r = [rank[p] for p in t['pos']] if rank else t['pos']
        if any(a > b for a, b in zip(r, r[1:])):
            unordered = True
    return odd_distinct, repeated, unordered


def draw_mpo_case(data, tier):
    from hypothesis import strategies as st
    fam = data.draw(st.sampled_from([i for i in range(len(G.FAMILIES)) if G.FAMILIES[i][0] != 'Qdit']))
    ops, sp, named = G.family(fam)
    maxN = {2: 6, 3: 5, 4: 4}.get(sp.d, 4) + (1 if tier != 'quick' else 0)
    N = data.draw(st.sampled_from([n for n in [2, 3, 4, 5, 6, 7] if n <= maxN]))
    terms, target = draw_terms(data, fam, N, tier)
    f_map = None
    if P_chance(data, 1, 3):
        f_map = list(data.draw(st.permutations(list(range(N)))))
    return {'fam': fam, 'N': N, 'terms': terms, 'f_map': f_map, 'I': data.draw(st.sampled_from(['mpo', 'tensor', 'list'])),
            'bad_charge': P_chance(data, 1, 12)}


def execute_mpo_case(case):
    fam, N = case['fam'], case['N']
    ops, sp, named = G.family(fam)
    terms = [dict(t) for t in case['terms']]
    Iarg = {'mpo': lambda: mps.product_mpo(ops.I(), N=N), 'tensor': lambda: ops.I(), 'list': lambda: [ops.I()] * N}[case['I']]()
    kw = {} if case['I'] == 'mpo' else {'N': N}
    if case['bad_charge']:
        # add a term whose total charge differs: must be rejected
        charged = [k for k, v in named.items() if any(v.n)]
        # (terms whose operator product vanishes, e.g. sm sm on one site, are skipped by generate_mpo and do not count)
        alive = [t for t in terms if np.linalg.norm(JW.jw_product(sp, [named[k] for k in t['ops']], t['pos'], N)) > 0]
        if charged and len(alive) >= 1:
            extra = {'amp': 1, 'pos': [0], 'ops': [charged[0]]}
            tot0 = gsum(sp.sym, [named[k].n for k in alive[0]['ops']], [1] * len(alive[0]['ops']))
            if tuple(named[charged[0]].n) != tot0:
                hts = [mps.Hterm(cx(t['amp']), tuple(t['pos']), tuple(named[k] for k in t['ops'])) for t in terms + [extra]]
                try:
                    mps.generate_mpo(Iarg, hts, f_map=case['f_map'], **kw)
                except YastnError:
                    return Res(labels=['unequal_charge_rejected'], nontrivial=True)
                raise Violation('mpo:unequal_charges_accepted', 'generate_mpo accepted terms of different total charge')
    hts = [mps.Hterm(cx(t['amp']), tuple(t['pos']), tuple(named[k] for k in t['ops'])) for t in terms]
    try:
        H = mps.generate_mpo(Iarg, hts, f_map=case['f_map'], **kw)
    except YastnError as e:
        raise Violation('mpo:unexpected_YastnError', str(e))
    got = G.mps_dense(H, sp)
    exp = dense_hamiltonian(terms, sp, named, N, case['f_map'])
    sc = max(np.linalg.norm(exp), 1e-300)
    err = np.linalg.norm(got - exp)
    if np.linalg.norm(exp) < 1e-13 * max(1.0, np.linalg.norm(got)) and err < 1e-11:
        pass
    elif err > TOL * max(sc, np.linalg.norm(got)):
        raise Violation('mpo:jordan_wigner' + (':f_map' if case['f_map'] else ''),
                        f'generate_mpo differs from the sum of JW products: |diff| = {err:.3e}, |H| = {sc:.3e}')
    odd_distinct, repeated, unordered = term_features(terms, sp, named, case['f_map'])
    ferm = bool(sp.ferm)
    labels = ['family:%s:%s' % (G.FAMILIES[fam][0], G.FAMILIES[fam][1]['sym']), 'fermionic' if ferm else 'bosonic', 'I:' + case['I']]
    if case['f_map'] and case['f_map'] != sorted(case['f_map']):
        labels.append('f_map')
    if any(any(named[k].n) for t in terms for k in t['ops']):
        labels.append('charged_ops')
    nt = ferm and odd_distinct and (unordered or repeated or 'f_map' in labels or isinstance(sp.ferm, tuple))
    return Res(labels=labels, nontrivial=bool(nt))


# ---- latex generator ----------------------------------------------------------------------------------------------------

def draw_latex_case(data, tier):
    from hypothesis import strategies as st
    fam = data.draw(st.sampled_from([i for i, (nm, kw) in enumerate(G.FAMILIES) if nm in ('SpinlessFermions', 'SpinfulFermions', 'Spin12')]))
    ops, sp, named = G.family(fam)
    N = data.draw(st.sampled_from([2, 3, 4] if sp.d > 2 else [2, 3, 4, 5]))
    name = G.FAMILIES[fam][0]
    if name == 'SpinlessFermions':
        hop, dens = ('cp', 'c'), ['n']
    elif name == 'SpinfulFermions':
        s = data.draw(st.sampled_from('ud'))
        hop, dens = ('cp' + s, 'c' + s), ['nu', 'nd']
    else:
        hop, dens = ('sp', 'sm'), ['sz', 'z']
    maptype = data.draw(st.sampled_from(['int', 'str', 'perm']))
    blocks = []
    for _ in range(data.draw(st.sampled_from([1, 2, 3, 2]))):
        kind = data.draw(st.sampled_from(['onsite', 'hop', 'dd', 'hop_indexed', 'onsite_indexed']))
        coef = data.draw(st.sampled_from([1, 2, 0.5, 1.5]))
        sign = data.draw(st.sampled_from(['+', '-']))
        pre = data.draw(st.sampled_from(['none', 'star', 'bracket', '1j']))
        if kind == 'hop' and (pre in ('star', '1j') or sign == '-') and not P_chance(data, 1, 10):
            pre = 'bracket'      # the other prefix forms hit a known finding: keep them rare
        if kind in ('onsite', 'onsite_indexed'):
            sites = sorted(data.draw(st.sets(st.integers(0, N - 1), min_size=1)))
            blocks.append({'kind': kind, 'op': data.draw(st.sampled_from(dens)), 'sites': sites, 'coef': coef, 'sign': sign, 'pre': pre,
                           'vals': [data.draw(st.sampled_from([1, 2, -1, 0.5])) for _ in range(N)]})
        else:
            pairs = sorted(data.draw(st.sets(st.tuples(st.integers(0, N - 1), st.integers(0, N - 1)).filter(lambda p: p[0] != p[1]), min_size=1, max_size=4)))
            blocks.append({'kind': kind, 'pairs': [list(p) for p in pairs], 'coef': coef, 'sign': sign, 'pre': pre,
                           'op': data.draw(st.sampled_from(dens)), 'vals': [[data.draw(st.sampled_from([1, 2, -1, 0.5])) for _ in range(N)] for _ in range(N)]})
    return {'fam': fam, 'N': N, 'hop': list(hop), 'blocks': blocks, 'maptype': maptype, 'perm': list(data.draw(st.permutations(list(range(N)))))}


KNOWN_LATEX_SCOPE = 'latex:minus_or_product_before_sum_with_bracketed_body'


def execute_latex_case(case):
    fam, N = case['fam'], case['N']
    ops, sp, named = G.family(fam)
    cp, c = case['hop']
    # site labels
    if case['maptype'] == 'int':
        lab = {i: i for i in range(N)}
    elif case['maptype'] == 'str':
        lab = {i: f's{i}' for i in range(N)}
    else:
        lab = {i: case['perm'][i] + 10 for i in range(N)}        # custom integer labels, arbitrary assignment
    emap = {lab[i]: i for i in range(N)}
    params, pieces, terms = {}, [], []
    for bi, b in enumerate(case['blocks']):
        g = f'g{bi}'
        params[g] = b['coef']
        S, Pn, V = f'S{bi}', f'P{bi}', f'V{bi}'
        if b['kind'] == 'onsite':
            params[S] = [lab[i] for i in b['sites']]
            body = rf"\sum_{{j \in {S}}} {g} {b['op']}_{{j}}"
            for i in b['sites']:
                terms.append({'amp': b['coef'], 'pos': [i], 'ops': [b['op']]})
        elif b['kind'] == 'onsite_indexed':
            params[S] = [lab[i] for i in b['sites']]
            params[V] = np.array(b['vals'], dtype=float)
            body = rf"\sum_{{j \in {S}}} {V}_{{j}} {b['op']}_{{j}}"
            for i in b['sites']:
                terms.append({'amp': b['vals'][i], 'pos': [i], 'ops': [b['op']]})
        elif b['kind'] == 'hop':
            params[Pn] = [(lab[i], lab[j]) for i, j in b['pairs']]
            body = rf"\sum_{{j,k \in {Pn}}} {g} ({cp}_{{j}} {c}_{{k}} + {cp}_{{k}} {c}_{{j}})"
            for i, j in b['pairs']:
                terms.append({'amp': b['coef'], 'pos': [i, j], 'ops': [cp, c]})
                terms.append({'amp': b['coef'], 'pos': [j, i], 'ops': [cp, c]})
        elif b['kind'] == 'hop_indexed':
            params[Pn] = [(lab[i], lab[j]) for i, j in b['pairs']]
            params[V] = np.array(b['vals'], dtype=float)
            body = rf"\sum_{{j,k \in {Pn}}} {V}_{{j,k}} {cp}_{{j}} * {c}_{{k}}"
            for i, j in b['pairs']:
                terms.append({'amp': b['vals'][i][j], 'pos': [i, j], 'ops': [cp, c]})
        else:  # density-density
            params[Pn] = [(lab[i], lab[j]) for i, j in b['pairs']]
            body = rf"\sum_{{j,k \in {Pn}}} {g} {b['op']}_{{j}} {b['op']}_{{k}}"
            for i, j in b['pairs']:
                terms.append({'amp': b['coef'], 'pos': [i, j], 'ops': [b['op'], b['op']]})
        n0 = len(terms)
        fac = 1
        if b['pre'] == 'star':
            body = f"2 * {body}"
            fac = 2
        elif b['pre'] == 'bracket':
            body = f"3 ({body})"
            fac = 3
        elif b['pre'] == '1j':
            body = f"1j * {body}"
            fac = 1j
        if b['sign'] == '-':
            fac = -fac
        # scale the terms of this block
        k0 = len(terms) - sum(1 for _ in range(0))
        blk_terms = _last_block_terms(terms, b)
        for t in blk_terms:
            t['amp'] = t['amp'] * fac
        pieces.append((b['sign'], body))
    Hstr = ''
    for k, (sg, body) in enumerate(pieces):
        if k == 0:
            Hstr = ('-' if sg == '-' else '') + body
        else:
            Hstr += f' {sg} ' + body
    # known finding: a sum whose body contains a bracket, when preceded by '-' or by 'number *', loses its summation scope
    scope_class = any(b['kind'] == 'hop' and (b['pre'] in ('star', '1j') or (b['sign'] == '-' and b['pre'] != 'bracket')) for b in case['blocks'])
    try:
        gen = mps.Generator(N, ops, map=emap)
        H = gen.mpo_from_latex(Hstr, parameters=params)
    except YastnError as e:
        raise Violation('latex:unexpected_YastnError', f'{e} for {Hstr!r}')
    except KeyError as e:
        if scope_class:
            raise Violation(KNOWN_LATEX_SCOPE, f'KeyError {e} for {Hstr!r}')
        raise Violation('latex:unexpected_KeyError', f'{str(e)[:200]} for {Hstr!r}')
    except Exception as e:
        raise Violation('latex:unexpected_' + type(e).__name__, f'{str(e)[:200]} for {Hstr!r}')
    got = G.mps_dense(H, sp)
    exp = dense_hamiltonian([{'amp': t['amp'], 'pos': t['pos'], 'ops': t['ops']} for t in terms], sp, named, N)
    err = np.linalg.norm(got - exp)
    if err > TOL * max(np.linalg.norm(exp), np.linalg.norm(got), 1e-300) and err > 1e-12:
        raise Violation('latex:jordan_wigner', f'mpo_from_latex({Hstr!r}) differs from the dense reference: |diff| = {err:.3e}')
    labels = ['family:%s:%s' % (G.FAMILIES[fam][0], G.FAMILIES[fam][1]['sym']), 'map:' + case['maptype']] + sorted({'block:' + b['kind'] for b in case['blocks']})
    nt = bool(sp.ferm) and any(b['kind'].startswith('hop') and any(abs(i - j) > 1 or i > j for i, j in b['pairs']) for b in case['blocks'])
    return Res(labels=labels, nontrivial=nt or not sp.ferm and len(case['blocks']) > 1)


def _last_block_terms(terms, b):
    """Terms appended for block b are the trailing ones: count them from the block definition."""
    if b['kind'] in ('onsite', 'onsite_indexed'):
        k = len(b['sites'])
    elif b['kind'] == 'hop':
        k = 2 * len(b['pairs'])
    else:
        k = len(b['pairs'])
    return terms[len(terms) - k:]


# ---- measurements -----------------------------------------------------------------------------------------------------------

def draw_measure_case(data, tier):
    from hypothesis import strategies as st
    fam = data.draw(st.sampled_from([i for i in range(len(G.FAMILIES)) if G.FAMILIES[i][0] != 'Qdit']))
    ops, sp, named = G.family(fam)
    maxN = {2: 5, 3: 4, 4: 4}.get(sp.d, 4)
    N = data.draw(st.sampled_from([n for n in [2, 3, 4, 5] if n <= maxN]))
    ket = G.draw_state_desc(data, fam, N, tier, kinds=('random', 'random', 'from_tensor'))
    what = data.draw(st.sampled_from(['1site', '2site', '2site', 'nsite', 'rdm', 'sample']))
    names = sorted(named)
    case = {'fam': fam, 'N': N, 'ket': ket, 'what': what, 'bra_seed': data.draw(st.integers(0, 9999))}
    if what == '1site':
        case['op'] = data.draw(st.sampled_from(names))
        case['form'] = data.draw(st.sampled_from(['all', 'dict', 'list', 'int']))
        case['sites'] = sorted(data.draw(st.sets(st.integers(0, N - 1), min_size=1)))
    elif what == '2site':
        case['O'] = data.draw(st.sampled_from(names))
        case['P'] = data.draw(st.sampled_from(names))
        case['bonds'] = data.draw(st.sampled_from(['<', '=', '>', 'a', 'r1', 'r-1', 'r2', 'r1p', '<=', 'explicit', 'single', 'explicit']))
        if case['bonds'] in ('explicit', 'single'):
            k = 1 if case['bonds'] == 'single' else data.draw(st.integers(1, 4))
            case['pairs'] = [[data.draw(st.integers(0, N - 1)), data.draw(st.integers(0, N - 1))] for _ in range(k)]
        case['dictO'] = data.draw(st.booleans())
    elif what == 'nsite':
        k = data.draw(st.sampled_from([2, 3, 4, 2, 3]))
        case['ops'] = [data.draw(st.sampled_from(names)) for _ in range(k)]
        case['sites'] = [data.draw(st.integers(0, N - 1)) for _ in range(k)]
    elif what == 'rdm':
        k = data.draw(st.integers(1, min(3, N)))
        case['sites'] = list(data.draw(st.permutations(list(range(N))))[:k])
    else:
        case['number'] = data.draw(st.sampled_from([3, 5, 8]))
        case['sseed'] = data.draw(st.integers(0, 9999))
        # without symmetry (and without fermionic strings) any orthonormal local basis is admissible: complex rotated bases, one per site
        case['basis'] = data.draw(st.sampled_from(['z', 'rotated', 'rotated_per_site'])) if sp.sym == 'dense' and not np.any(sp.ferm) else 'z'
    return case


def bra_for(case, ket, fam, N, sp, nshift):
    """A bra state with charge n_ket + nshift (None if that charge is not admissible)."""
    n_ket = tuple(case['ket']['n'])
    n_bra = gsum(sp.sym, [n_ket, nshift], [1, 1])
    if n_bra == n_ket:
        return ket
    if n_bra not in G.admissible_charges(sp, N):
        return None
    d = {'kind': 'random', 'n': list(n_bra), 'seed': case['bra_seed'], 'dtype': case['ket']['dtype'], 'D': 4, 'factor': 1}
    return G.build_state(d, fam, N)


def execute_measure_case(case):
    fam, N = case['fam'], case['N']
    ops, sp, named = G.family(fam)
    ket = G.build_state(case['ket'], fam, N)
    if ket is None:
        raise Reject('zero_random_state')
    v = G.mps_dense(ket, sp)
    what = case['what']
    labels = ['family:%s:%s' % (G.FAMILIES[fam][0], G.FAMILIES[fam][1]['sym']), 'what:' + what, 'fermionic' if sp.ferm else 'bosonic']
    nt = False

    def close(got, exp, scale, key, info=''):
        if abs(complex(got) - complex(exp)) > TOL * max(scale, 1e-300):
            raise Violation(key, f'got {got}, expected {exp} (scale {scale:.3e}) {info}')

    try:
        if what == '1site':
            O = named[case['op']]
            bra = bra_for(case, ket, fam, N, sp, tuple(O.n))
            if bra is None:
                raise Reject('inadmissible_bra_charge')
            w = G.mps_dense(bra, sp)
            sc = np.linalg.norm(v) * np.linalg.norm(w) * max(1.0, np.linalg.norm(sp.dense(O), 2))
            form = case['form']
            if form == 'all':
                res = mps.measure_1site(bra, O, ket)
                sites = list(range(N))
            elif form == 'dict':
                res = mps.measure_1site(bra, {i: O for i in case['sites']}, ket)
                sites = case['sites']
            elif form == 'list':
                res = mps.measure_1site(bra, O, ket, sites=case['sites'])
                sites = case['sites']
            else:
                res = {case['sites'][0]: mps.measure_1site(bra, O, ket, sites=case['sites'][0])}
                sites = case['sites'][:1]
            if sorted(res.keys()) != sorted(sites):
                raise Violation('measure_1site:keys', f'returned sites {sorted(res.keys())}, requested {sorted(sites)}')
            for i in sites:
                close(res[i], np.vdot(w, JW.jw_single(sp, O, i, N) @ v), sc, 'measure_1site:value', f'site {i} op {case["op"]}')
            nt = sp.is_odd(O.n) and bool(sp.ferm)
        elif what == '2site':
            O, Pp = named[case['O']], named[case['P']]
            tot = gsum(sp.sym, [O.n, Pp.n], [1, 1])
            bra = bra_for(case, ket, fam, N, sp, tot)
            if bra is None:
                raise Reject('inadmissible_bra_charge')
            w = G.mps_dense(bra, sp)
            sc = np.linalg.norm(v) * np.linalg.norm(w) * max(1.0, np.linalg.norm(sp.dense(O), 2) * np.linalg.norm(sp.dense(Pp), 2))
            b = case['bonds']
            Oarg = {i: O for i in range(N)} if case['dictO'] else O
            if b == 'single':
                pr = tuple(case['pairs'][0])
                res = {pr: mps.measure_2site(bra, Oarg, Pp, ket, bonds=pr)}
                exp_pairs = [pr]
            elif b == 'explicit':
                prs = [tuple(p) for p in case['pairs']]
                res = mps.measure_2site(bra, Oarg, Pp, ket, bonds=prs)
                exp_pairs = sorted(set(prs))
            else:
                res = mps.measure_2site(bra, Oarg, Pp, ket, bonds=b)
                exp_pairs = ref_pairs(b, N)
            if sorted(res.keys()) != sorted(exp_pairs):
                raise Violation('measure_2site:keys', f"bonds={b!r}: returned {sorted(res.keys())}, documented {sorted(exp_pairs)}")
            for (i, j) in exp_pairs:
                exp = np.vdot(w, JW.jw_single(sp, O, i, N) @ JW.jw_single(sp, Pp, j, N) @ v)
                close(res[(i, j)], exp, sc, 'measure_2site:value' + (':i>j' if i > j else ':i=j' if i == j else ''), f'bond {(i, j)} ops {case["O"]},{case["P"]}')
            nt = bool(sp.ferm) and sp.is_odd(O.n) and sp.is_odd(Pp.n) and any(i > j for i, j in exp_pairs)
            labels.append('bonds:' + b)
        elif what == 'nsite':
            tens = [named[k] for k in case['ops']]
            tot = gsum(sp.sym, [t.n for t in tens], [1] * len(tens))
            bra = bra_for(case, ket, fam, N, sp, tot)
            if bra is None:
                raise Reject('inadmissible_bra_charge')
            w = G.mps_dense(bra, sp)
            sc = np.linalg.norm(v) * np.linalg.norm(w) * max(1.0, float(np.prod([np.linalg.norm(sp.dense(t), 2) for t in tens])))
            res = mps.measure_nsite(bra, *tens, ket=ket, sites=case['sites'])
            exp = np.vdot(w, JW.jw_product(sp, tens, case['sites'], N) @ v)
            close(res, exp, sc, 'measure_nsite:value', f'ops {case["ops"]} sites {case["sites"]}')
            odd_sites = [s for t, s in zip(tens, case['sites']) if sp.is_odd(t.n)]
            nt = bool(sp.ferm) and len(set(odd_sites)) >= 2 and (len(set(case['sites'])) < len(case['sites']) or case['sites'] != sorted(case['sites']))
        elif what == 'rdm':
            sites = case['sites']
            rho = mps.rdm(ket, *sites)
            k = len(sites)
            rk = [sorted(sites).index(s) for s in sites]            # position of each listed site in chain order
            nrm2 = float(np.vdot(v, v).real)
            names = sorted(named)
            rng = np.random.default_rng(case['bra_seed'])
            tuples = list(itertools.product(names, repeat=k))
            if len(tuples) > 40:
                tuples = [tuples[i] for i in rng.choice(len(tuples), size=40, replace=False)]
            # matrix of rho in the order of the LISTED sites: legs (o0, i0, o1, i1, ...)
            R = JW.tensor_to_matrix(rho, sp, k)
            for tup in tuples:
                tens = [named[nm] for nm in tup]
                if any(gsum(sp.sym, [t.n for t in tens], [1] * k)):
                    continue
                exp = np.vdot(v, JW.jw_product(sp, tens, sites, N) @ v)
                # rdm(psi, s0, s1, ...) is expressed in the fermionic order of the LISTED sites (legs are re-ordered with swap
                # gates), so it pairs with fkron(O0, O1, ...) whose j-th operator sits on position j of that order
                F = yastn.fkron(*tens)
                Fm = JW.tensor_to_matrix(F, sp, k)
                got = np.trace(R @ Fm)
                close(got, exp, max(nrm2, 1e-300) * max(1.0, np.linalg.norm(Fm, 2)), 'rdm:expectation', f'sites {sites} ops {tup}')
            if not sp.ferm:
                psi_t = v.reshape((sp.d,) * N)
                others = [q for q in range(N) if q not in sites]
                M_ = np.tensordot(psi_t, psi_t.conj(), axes=(others, others))        # (listed..., listed'...) in chain order
                order = [sorted(sites).index(s) for s in sites]
                M_ = M_.transpose(order + [k + o for o in order]).reshape(sp.d ** k, sp.d ** k)
                if np.linalg.norm(M_ - R) > TOL * max(nrm2, 1e-300):
                    raise Violation('rdm:partial_trace', f'rdm differs from the partial trace for sites {sites}')
            nt = bool(sp.ferm) and k >= 2 and sites != sorted(sites)
        else:
            C.reseed_backend(case['sseed'])
            basis = case.get('basis', 'z')
            if basis == 'z':
                projs = [G.basis_vector(sp, i) for i in range(sp.d)]
                Us = [np.eye(sp.d)] * N
            else:
                rng = np.random.default_rng(case['sseed'])
                Us = []
                for _ in range(N if basis == 'rotated_per_site' else 1):
                    Q, _R = np.linalg.qr(rng.normal(size=(sp.d, sp.d)) + 1j * rng.normal(size=(sp.d, sp.d)))
                    Us.append(Q)        # columns = orthonormal local vectors
                Us = Us if basis == 'rotated_per_site' else Us * N

                def vec(col):
                    t = yastn.Tensor(config=sp.config, s=(1,), dtype='complex128')
                    t.set_block(Ds=(sp.d,), val=col)
                    return t
                projs = {n: [vec(Us[n][:, i]) for i in range(sp.d)] for n in range(N)} if basis == 'rotated_per_site' else \
                    [vec(Us[0][:, i]) for i in range(sp.d)]
                labels.append('sample:' + basis)
            with warnings.catch_warnings():
                warnings.simplefilter('ignore')      # (numpy ComplexWarning: sample() stores |amplitude|^2 of complex vectors into a real array)
                samples, probs = mps.sample(ket, projs, number=case['number'], return_probabilities=True)
            nrm2 = float(np.vdot(v, v).real)
            vt = v.reshape((sp.d,) * N)
            for smp, p in zip(samples, probs):
                amp = vt
                for n_, s in enumerate(smp):        # <u_s0 u_s1 ... | v>, site by site
                    amp = np.tensordot(Us[n_][:, int(s)].conj(), amp, axes=(0, 0))
                born = abs(complex(amp)) ** 2 / nrm2
                if abs(born - p) > 1e-9:
                    raise Violation('sample:born_probability', f'configuration {smp.tolist()} reported probability {p}, Born probability {born}')
                if born < 1e-14:
                    raise Violation('sample:impossible_configuration', f'sampled configuration {smp.tolist()} has zero amplitude')
            nt = N >= 3
    except YastnError as e:
        raise Violation(f'{what}:unexpected_YastnError', str(e))
    return Res(labels=labels, nontrivial=bool(nt))


def ref_pairs(b, N):
    """Documented meaning of the bond strings."""
    if 'a' in b:
        return [(i, j) for i in range(N) for j in range(N)]
    out = set()
    if '<' in b:
        out |= {(i, j) for i in range(N) for j in range(i + 1, N)}
    if '=' in b:
        out |= {(i, i) for i in range(N)}
    if '>' in b:
        out |= {(i, j) for i in range(N) for j in range(i)}
    pbc = 'p' in b
    rest = b.replace('<', '').replace('=', '').replace('>', '').replace('p', '')
    if 'r' in rest:
        for r in rest.split('r')[1:]:
            r = int(r)
            for i in range(N):
                j = i + r
                if pbc:
                    out.add((i, j % N))
                elif 0 <= j < N:
                    out.add((i, j))
    return sorted(out)


def parts(tier):
    return [EnumPart('onsite', onsite_chunks, run_onsite_chunk, onsite_execute),
            HypPart('mpo', draw_mpo_case, execute_mpo_case, {'quick': 1200, 'thorough': 15000}),
            HypPart('latex', draw_latex_case, execute_latex_case, {'quick': 400, 'thorough': 5000}),
            HypPart('measure', draw_measure_case, execute_measure_case, {'quick': 1200, 'thorough': 12000})]
